// Leaf contracts. Each check executes the real library over [lo, hi] of its domain and records every
// input that violates the contract with a stable key (used by known_findings.txt).
#![allow(unused_imports, dead_code)]
use crate::spec;
use crate::Out;
use std::panic::{catch_unwind, AssertUnwindSafe};
use tyme4rs::tyme::{Culture, Tyme};
use tyme4rs::tyme::solar::*;
use tyme4rs::tyme::lunar::*;
use tyme4rs::tyme::jd::JulianDay;
use tyme4rs::tyme::sixtycycle::*;
use tyme4rs::tyme::culture::*;
use tyme4rs::tyme::culture::star::nine::NineStar;
use tyme4rs::tyme::culture::star::twelve::TwelveStar;
use tyme4rs::tyme::culture::star::twenty_eight::TwentyEightStar;
use tyme4rs::tyme::culture::fetus::FetusDay;
use tyme4rs::tyme::enums::{YinYang, Side};

pub fn dispatch(check: &str, lo: i64, hi: i64, seed: u64, thorough: bool, out: &mut Out) -> bool {
  match check {
    "c01_calendar_years" => c01_calendar_years(lo, hi, out),
    "l_new" => l_new(lo, hi, out),
    "l_td" => l_td(lo, hi, out),
    "c11_linear" => c11_linear(lo, hi, seed, out),
    "c12_step" => c12_step(lo, hi, seed, out),
    "c12_roundtrip" => c12_roundtrip(lo, hi, seed, out),
    "c12_fraction" => c12_fraction(lo, hi, seed, out),
    "c13_solar" => c13_solar(lo, hi, out),
    "c13_lunar" => c13_lunar(lo, hi, out),
    "c19_attributes" => c19_attributes(out),
    "c11_names" => c11_names(out),
    "c03_month_step" => c03_month_step(lo, hi, out),
    "c02_solar_side" => c02_solar_side(lo, hi, out),
    "c02_lunar_side" => c02_lunar_side(lo, hi, out),
    "c06_day_term" => c06_day_term(lo, hi, out),
    "c06_time_term" => c06_time_term(lo, hi, seed, out),
    "c06_term_step" => c06_term_step(lo, hi, out),
    "c07_pillar_week" => c07_pillar_week(lo, hi, out),
    _ => return false,
  }
  true
}

pub fn guard<T>(f: impl FnOnce() -> T) -> Option<T> { catch_unwind(AssertUnwindSafe(f)).ok() }

// paired execution search for C01: every candidate (y, m 0..13, d 0..32) of years lo..hi
fn c01_calendar_years(lo: i64, hi: i64, out: &mut Out) {
  for y in lo..=hi {
    for m in 0..=13i64 {
      for d in 0..=32i64 {
        out.evaluations += 1;
        let want = spec::valid_date(y, m, d);
        let got = guard(|| SolarDay::new(y as isize, m as usize, d as usize).is_ok()).unwrap_or(false);
        if got != want { out.fail(format!("accept:{}-{}-{}", y, m, d), format!("accepted={} exists={}", got, want)); continue; }
        if !want { continue; }
        let n = spec::jdn(y, m, d);
        let sd = SolarDay::from_ymd(y as isize, m as usize, d as usize);
        let jd = sd.get_julian_day().get_day();
        if jd != n as f64 - 0.5 { out.fail(format!("jdn:{}-{}-{}", y, m, d), format!("day count {} want {}", jd, n as f64 - 0.5)); }
        match guard(|| sd.get_julian_day().get_solar_day()) {
          Some(b) => if b != sd { out.fail(format!("back:{}-{}-{}", y, m, d), format!("maps back to {}", b)); },
          None => out.fail(format!("back:{}-{}-{}", y, m, d), "panic".to_string()),
        }
        // day of year, stepping by one day, difference, ordering against the neighbour
        if sd.get_index_in_year() as i64 != n - spec::jdn(y, 1, 1) { out.fail(format!("doy:{}-{}-{}", y, m, d), format!("index in year {}", sd.get_index_in_year())); }
        if n < 5373484 {
          match guard(|| sd.next(1)) {
            Some(nx) => {
              let nn = spec::jdn(nx.get_year() as i64, nx.get_month() as i64, nx.get_day() as i64);
              if nn != n + 1 || !spec::valid_date(nx.get_year() as i64, nx.get_month() as i64, nx.get_day() as i64) { out.fail(format!("next:{}-{}-{}", y, m, d), format!("next day is {}", nx)); }
              if nx.subtract(sd) != 1 || sd.subtract(nx) != -1 || !sd.is_before(nx) || !nx.is_after(sd) || sd.is_after(nx) || nx.is_before(sd) || guard(|| nx.next(-1)) != Some(sd) { out.fail(format!("order:{}-{}-{}", y, m, d), "subtract / before / after / next(-1) disagree with the neighbour".into()); }
            }
            None => out.fail(format!("next:{}-{}-{}", y, m, d), "panic".into()),
          }
        }
        if d == 1 {
          let smo = sd.get_solar_month();
          if smo.get_day_count() as i64 != spec::month_len(y, m) { out.fail(format!("monthlen:{}-{}", y, m), format!("{}", smo.get_day_count())); }
          if m == 1 && (smo.get_solar_year().get_day_count() as i64 != spec::year_len(y) || smo.get_solar_year().is_leap() != spec::is_leap_civil(y)) { out.fail(format!("yearlen:{}", y), "year length / leap".into()); }
          let far = (y * 7919 + m * 104729) % 3000000 - 1500000;
          if n + far >= 1721424 && n + far <= 5373484 {
            match guard(|| sd.next(far as isize)) { Some(f) => if spec::jdn(f.get_year() as i64, f.get_month() as i64, f.get_day() as i64) != n + far || f.subtract(sd) as i64 != far { out.fail(format!("far:{}-{}-{}", y, m, far), format!("{}", f)); }, None => out.fail(format!("far:{}-{}-{}", y, m, far), "panic".into()) }
          }
        }
      }
    }
    if y == lo { out.sample(format!("year {}: all 14x33 candidates", y)); }
  }
}


// ---------------------------------------------------------------------------------------------
// L-NEW: leaf contract of LunarMonth::new over every lunation of lunar years lo..=hi
//   Ok <=> m in +-1..12 and (m<0 => |m| == leap(y)); index_in_year sequential; day_count in {29,30};
//   first day integral (x.5); TILING: first(next month) == first + day_count, also across the year end;
//   year length 353..355 / 383..385; 12/13 months; leap(y) in 0..12
// ---------------------------------------------------------------------------------------------
pub fn months_of(y: isize) -> Vec<isize> {
  let leap = LunarYear::from_year(y).get_leap_month() as isize;
  let mut v = vec![];
  for m in 1..=12isize { v.push(m); if m == leap { v.push(-m); } }
  v
}

fn l_new(lo: i64, hi: i64, out: &mut Out) {
  for y in lo..=hi {
    let y = y as isize;
    let leap = match guard(|| LunarYear::from_year(y).get_leap_month()) { Some(l) => l as isize, None => { out.fail(format!("leap:{}", y), "panic".into()); continue; } };
    out.evaluations += 1;
    if leap < 0 || leap > 12 { out.fail(format!("leap:{}", y), format!("leap month {}", leap)); continue; }
    // refusals
    for m in [0isize, 13, -13, 14, -14] {
      out.evaluations += 1;
      match guard(|| LunarMonth::new(y, m).is_ok()) { Some(false) => {}, r => out.fail(format!("accept:{}:{}", y, m), format!("{:?}", r)) }
    }
    for k in 1..=12isize {
      out.evaluations += 1;
      let want = k == leap;
      match guard(|| LunarMonth::new(y, -k).is_ok()) { Some(b) if b == want => {}, r => out.fail(format!("accept:{}:{}", y, -k), format!("{:?} want {}", r, want)) }
    }
    let ms = months_of(y);
    let mut prev: Option<(isize, f64, usize)> = None;
    let mut total: usize = 0;
    let mut first_of_year = 0.0;
    for (i, &m) in ms.iter().enumerate() {
      out.evaluations += 1;
      let lm = match guard(|| LunarMonth::new(y, m)) { Some(Ok(v)) => v, r => { out.fail(format!("new:{}:{}", y, m), format!("refused/panic {:?}", r.map(|x| x.is_ok()))); continue; } };
      let first = lm.get_first_julian_day().get_day();
      let dc = lm.get_day_count();
      if i == 0 { first_of_year = first; }
      if lm.get_year() != y || lm.get_month_with_leap() != m || lm.is_leap() != (m < 0) || lm.get_month() as isize != m.abs() {
        out.fail(format!("fields:{}:{}", y, m), format!("{} {}", lm.get_year(), lm.get_month_with_leap()));
      }
      if lm.get_index_in_year() != i { out.fail(format!("index:{}:{}", y, m), format!("index_in_year {} want {}", lm.get_index_in_year(), i)); }
      if dc != 29 && dc != 30 { out.fail(format!("len:{}:{}", y, m), format!("day_count {}", dc)); }
      if first.fract() != 0.0 { out.fail(format!("integral:{}:{}", y, m), format!("first jd {}", first)); }
      if let Some((pm, pf, pdc)) = prev {
        if pf + pdc as f64 != first { out.fail(format!("tiling:{}:{}", y, m), format!("month {} starts at {} + {} days but month {} starts at {}", pm, pf, pdc, m, first)); }
      }
      prev = Some((m, first, dc));
      total += dc;
    }
    // across the year end
    if y < 9999 {
      out.evaluations += 1;
      if let (Some((pm, pf, pdc)), Some(Ok(n))) = (prev, guard(|| LunarMonth::new(y + 1, 1))) {
        let nf = n.get_first_julian_day().get_day();
        if pf + pdc as f64 != nf { out.fail(format!("tiling:{}:{}", y + 1, 1), format!("month {} of {} starts at {} + {} days but month 1 of {} starts at {}", pm, y, pf, pdc, y + 1, nf)); }
        if nf - first_of_year != total as f64 { out.fail(format!("yearlen:{}", y), format!("new-year distance {} but months sum to {}", nf - first_of_year, total)); }
      }
    }
    let want_count = if leap > 0 { 13 } else { 12 };
    if ms.len() != want_count { out.fail(format!("count:{}", y), format!("{}", ms.len())); }
    let ok_len = if leap > 0 { total >= 383 && total <= 385 } else { total >= 353 && total <= 355 };
    if !ok_len { out.fail(format!("yeardays:{}", y), format!("{} days with leap {}", total, leap)); }
    if y == lo as isize { out.sample(format!("lunar year {}: leap {}, {} months, {} days", y, leap, ms.len(), total)); }
  }
}

// ---------------------------------------------------------------------------------------------
// L-TD / L-TI: term days and instants, k = 24*y + i for y in lo..=hi
//   term day TD(k) valid date, strictly increasing, 14 <= TD(k+1)-TD(k) <= 16; instants strictly
//   increasing 14.6..15.8 days apart; civil day of the instant == TD(k); from_index year/index carry
// ---------------------------------------------------------------------------------------------
fn l_td(lo: i64, hi: i64, out: &mut Out) {
  let mut prev: Option<(i64, f64)> = None;
  // start one term before lo's first so that the chunk boundaries are covered too
  let start_k = if lo <= 1 { 25 } else { lo * 24 - 1 };
  let end_k = hi * 24 + 23;
  for k in start_k..=end_k {
    let y = spec::ediv(k, 24) as isize;
    let i = spec::emod(k, 24) as isize;
    out.evaluations += 1;
    let t = match guard(|| SolarTerm::from_index(y, i)) { Some(t) => t, None => { out.fail(format!("term:{}:{}", y, i), "panic".into()); prev = None; continue; } };
    if t.get_year() != y || t.get_index() as isize != i { out.fail(format!("termfields:{}:{}", y, i), format!("{} {}", t.get_year(), t.get_index())); }
    let jd = t.get_julian_day().get_day();
    let day = match guard(|| t.get_julian_day().get_solar_day()) { Some(d) => d, None => { if y >= 1 && y <= 9999 { out.fail(format!("termday:{}:{}", y, i), "panic".into()); } prev = None; continue; } };
    let n = spec::jdn(day.get_year() as i64, day.get_month() as i64, day.get_day() as i64);
    // civil day of the instant rounded to the nearest second (the library's JD -> clock conversion rounds)
    if (jd + 0.5 + 0.5 / 86400.0).floor() as i64 != n { out.fail(format!("termday_of_instant:{}:{}", y, i), format!("jd {} day {}", jd, n)); }
    if let Some((pn, pjd)) = prev {
      let gap = n - pn;
      if gap < 14 || gap > 16 { out.fail(format!("tdgap:{}:{}", y, i), format!("term day gap {}", gap)); }
      let g = jd - pjd;
      if !(g >= 14.6 && g <= 15.8) { out.fail(format!("tigap:{}:{}", y, i), format!("term instant gap {}", g)); }
    }
    prev = Some((n, jd));
    if k == start_k + 1 { out.sample(format!("term {} of {}: jd {} day {}", i, y, jd, day)); }
  }
}


// helpers -------------------------------------------------------------------------------------
pub fn jdn_sd(d: &SolarDay) -> i64 { spec::jdn(d.get_year() as i64, d.get_month() as i64, d.get_day() as i64) }

/// every valid civil date of year y, in order
pub fn dates_of_year(y: i64) -> Vec<(i64, i64, i64)> {
  let mut v = vec![];
  for m in 1..=12 { for d in 1..=31 { if spec::valid_date(y, m, d) { v.push((y, m, d)); } } }
  v
}

/// table of lunar month starts (day numbers) for lunar years lo-1..=hi+1, from LunarMonth::new (cache-free leaf)
pub struct MonthRow { pub y: isize, pub m: isize, pub first: i64, pub count: i64 }
pub fn month_table(lo: isize, hi: isize) -> Vec<MonthRow> {
  let mut v = vec![];
  for y in lo..=hi {
    if y < 0 || y > 9999 { continue; }
    for m in months_of(y) {
      if let Some(Ok(lm)) = guard(|| LunarMonth::new(y, m)) {
        v.push(MonthRow { y, m, first: lm.get_first_julian_day().get_day() as i64, count: lm.get_day_count() as i64 });
      }
    }
  }
  v
}

// ---------------------------------------------------------------------------------------------
// C02 solar side: every civil date of years lo..=hi
//   lunar date L = get_lunar_day(): first(L.month) + L.day - 1 == jdn ; 1 <= L.day <= count ; maps back;
//   consecutive civil days -> day+1 in the same month, or day 1 of the month that follows
// ---------------------------------------------------------------------------------------------
fn c02_solar_side(lo: i64, hi: i64, out: &mut Out) {
  let mut prev: Option<(isize, isize, usize)> = None;
  for y in lo..=hi {
    for (yy, m, d) in dates_of_year(y) {
      out.evaluations += 1;
      let sd = SolarDay::from_ymd(yy as isize, m as usize, d as usize);
      let n = spec::jdn(yy, m, d);
      let ld = match guard(|| sd.get_lunar_day()) { Some(l) => l, None => { out.fail(format!("s2l:{}-{}-{}", yy, m, d), "panic".into()); prev = None; continue; } };
      let lm = ld.get_lunar_month();
      let first = lm.get_first_julian_day().get_day() as i64;
      if first + ld.get_day() as i64 - 1 != n || ld.get_day() < 1 || ld.get_day() > lm.get_day_count() {
        out.fail(format!("s2l:{}-{}-{}", yy, m, d), format!("lunar {} (month starts {}, {} days) but day number {}", ld, first, lm.get_day_count(), n));
      }
      match guard(|| ld.get_solar_day()) {
        Some(b) => if b != sd { out.fail(format!("s2l2s:{}-{}-{}", yy, m, d), format!("lunar {} maps back to {}", ld, b)); },
        None => out.fail(format!("s2l2s:{}-{}-{}", yy, m, d), "panic".into()),
      }
      let cur = (ld.get_year(), ld.get_month(), ld.get_day());
      if let Some(p) = prev {
        let same = p.0 == cur.0 && p.1 == cur.1 && cur.2 == p.2 + 1;
        let mut next_month = false;
        if cur.2 == 1 {
          if let Some(nm) = guard(|| LunarMonth::from_ym(p.0, p.1).next(1)) {
            next_month = nm.get_year() == cur.0 && nm.get_month_with_leap() == cur.1 && p.2 == LunarMonth::from_ym(p.0, p.1).get_day_count();
          }
        }
        if !(same || next_month) { out.fail(format!("consec:{}-{}-{}", yy, m, d), format!("lunar {:?} follows {:?}", cur, p)); }
      }
      prev = Some(cur);
    }
    if y == lo { out.sample(format!("civil year {}: every date -> lunar -> civil", y)); }
  }
}

// ---------------------------------------------------------------------------------------------
// C02 lunar side: every lunar (y, m, d) of lunar years lo..=hi
//   accepted <=> 1 <= d <= count ; from_ymd(..).get_solar_day().get_lunar_day() == same ;
//   is_before / is_after agree with chronological order for all pairs drawn from a month and the
//   two months that follow (first/middle/last day of each)
// ---------------------------------------------------------------------------------------------
fn c02_lunar_side(lo: i64, hi: i64, out: &mut Out) {
  for y in lo..=hi {
    let y = y as isize;
    let ms = months_of(y);
    let mut picks: Vec<(isize, isize, usize, i64)> = vec![];
    for &m in ms.iter() {
      let lm = match guard(|| LunarMonth::from_ym(y, m)) { Some(v) => v, None => { out.fail(format!("lm:{}:{}", y, m), "panic".into()); continue; } };
      let cnt = lm.get_day_count();
      for d in [0usize, cnt + 1] {
        out.evaluations += 1;
        match guard(|| LunarDay::new(y, m, d).is_ok()) { Some(false) => {}, r => out.fail(format!("laccept:{}:{}:{}", y, m, d), format!("{:?}", r)) }
      }
      for d in 1..=cnt {
        out.evaluations += 1;
        let ld = match guard(|| LunarDay::new(y, m, d)) { Some(Ok(v)) => v, _ => { out.fail(format!("laccept:{}:{}:{}", y, m, d), "refused".into()); continue; } };
        let want_n = lm.get_first_julian_day().get_day() as i64 + d as i64 - 1;
        if want_n < 1721424 || want_n > 5373484 { continue; } // civil date outside 0001-01-01..9999-12-31
        let sd = match guard(|| ld.get_solar_day()) { Some(v) => v, None => { out.fail(format!("l2s:{}:{}:{}", y, m, d), "panic".into()); continue; } };
        let n = jdn_sd(&sd);
        if n != lm.get_first_julian_day().get_day() as i64 + d as i64 - 1 { out.fail(format!("l2s:{}:{}:{}", y, m, d), format!("civil {} but month starts at {}", sd, lm.get_first_julian_day().get_day())); }
        match guard(|| sd.get_lunar_day()) {
          Some(b) => if b != ld { out.fail(format!("l2s2l:{}:{}:{}", y, m, d), format!("civil {} maps back to {}", sd, b)); },
          None => out.fail(format!("l2s2l:{}:{}:{}", y, m, d), "panic".into()),
        }
        if d == 1 || d == 15 || d == cnt { picks.push((y, m, d, n)); }
      }
    }
    // ordering among neighbouring months (window of 9 picks = 3 months)
    for i in 0..picks.len() {
      for j in i..usize::min(i + 9, picks.len()) {
        out.evaluations += 1;
        let (a, b) = (&picks[i], &picks[j]);
        let la = LunarDay::from_ymd(a.0, a.1, a.2);
        let lb = LunarDay::from_ymd(b.0, b.1, b.2);
        let before = guard(|| la.is_before(lb.clone()));
        let after = guard(|| la.is_after(lb.clone()));
        let rbefore = guard(|| lb.is_before(la.clone()));
        let rafter = guard(|| lb.is_after(la.clone()));
        if before != Some(a.3 < b.3) || after != Some(a.3 > b.3) || rbefore != Some(b.3 < a.3) || rafter != Some(b.3 > a.3) {
          out.fail(format!("order:{}:{}:{}~{}:{}", y, a.1, a.2, b.1, b.2), format!("a<b {:?}/{} a>b {:?}/{} b<a {:?} b>a {:?}", before, a.3 < b.3, after, a.3 > b.3, rbefore, rafter));
        }
      }
    }
    if y as i64 == lo { out.sample(format!("lunar year {}: every lunar day -> civil -> lunar; order over {} picks", y, picks.len())); }
  }
}

// term day numbers TD(k) for k in 24*(lo)..=24*(hi+1)+2, by from_index (L-TD leaf)
pub fn term_days(lo: i64, hi: i64) -> (i64, Vec<i64>) {
  let k0 = if lo <= 1 { 25 } else { lo * 24 - 2 };
  let k1 = (hi + 1) * 24 + 3;
  let mut v = vec![];
  for k in k0..=k1 {
    let y = spec::ediv(k, 24) as isize;
    let i = spec::emod(k, 24) as isize;
    let d = guard(|| SolarTerm::from_index(y, i).get_julian_day().get_solar_day()).map(|d| jdn_sd(&d)).unwrap_or(i64::MAX);
    v.push(d);
  }
  (k0, v)
}

// ---------------------------------------------------------------------------------------------
// C06 day -> term: every civil date of years lo..=hi (1 <= lo, hi <= 9998)
//   get_term_day() = (term k, index) with TD(k) <= jdn < TD(k+1) and index == jdn - TD(k) <= 16
// ---------------------------------------------------------------------------------------------
fn c06_day_term(lo: i64, hi: i64, out: &mut Out) {
  let (k0, td) = term_days(lo, hi);
  let mut kk: usize = 0;
  for y in lo..=hi {
    for (yy, m, d) in dates_of_year(y) {
      let n = spec::jdn(yy, m, d);
      while kk + 1 < td.len() && td[kk + 1] <= n { kk += 1; }
      out.evaluations += 1;
      if td[kk] > n {
        // before the first term whose day is a supported civil date (0001-01-01..05): the governing term
        // (winter solstice of December 0000) cannot be represented, the request must at least not panic
        let sd = SolarDay::from_ymd(yy as isize, m as usize, d as usize);
        if guard(|| sd.get_term_day().get_day_index()).is_none() { out.fail(format!("dayterm:{}-{}-{}", yy, m, d), "panic: governing term lies in year 0".into()); }
        continue;
      }
      let want_k = k0 + kk as i64;
      let sd = SolarDay::from_ymd(yy as isize, m as usize, d as usize);
      match guard(|| { let t = sd.get_term_day(); (t.get_solar_term().get_year(), t.get_solar_term().get_index(), t.get_day_index()) }) {
        Some((ty, ti, idx)) => {
          let k = ty as i64 * 24 + ti as i64;
          if k != want_k || idx as i64 != n - td[kk] || idx > 16 {
            out.fail(format!("dayterm:{}-{}-{}", yy, m, d), format!("term ({},{}) index {} ; want term k={} index {}", ty, ti, idx, want_k, n - td[kk]));
          }
        }
        None => out.fail(format!("dayterm:{}-{}-{}", yy, m, d), "panic".into()),
      }
    }
    if y == lo { out.sample(format!("civil year {}: every date -> (term, day index)", y)); }
  }
}

pub fn lcg(s: &mut u64) -> u64 { *s = s.wrapping_mul(6364136223846793005).wrapping_add(1442695040888963407); *s >> 33 }

// ---------------------------------------------------------------------------------------------
// C06 instant -> term: for every term of years lo..=hi: the term instant itself, one second before,
//   one second after, and one pseudo-random instant inside the interval -> latest term starting on/before
// ---------------------------------------------------------------------------------------------
fn c06_time_term(lo: i64, hi: i64, seed: u64, out: &mut Out) {
  let mut rng = seed ^ 0x9e3779b97f4a7c15 ^ (lo as u64) << 20;
  for y in lo..=hi {
    for i in 0..24i64 {
      let k = y * 24 + i;
      if k < 26 { continue; }
      let t = SolarTerm::from_index(y as isize, i as isize);
      let nt = t.next(1);
      let ti = match guard(|| t.get_julian_day().get_solar_time()) { Some(v) => v, None => continue };
      let tn = match guard(|| nt.get_julian_day().get_solar_time()) { Some(v) => v, None => continue };
      let span = tn.subtract(ti);
      let r = 2 + (lcg(&mut rng) as isize % (span - 4));
      for (off, wantk) in [(0isize, k), (-1, k - 1), (1, k), (r, k), (span - 1, k)] {
        out.evaluations += 1;
        let inst = ti.next(off);
        if inst.get_year() < 1 || inst.get_year() > 9998 { continue; }
        match guard(|| { let g = inst.get_term(); g.get_year() as i64 * 24 + g.get_index() as i64 }) {
          Some(g) => if g != wantk { out.fail(format!("timeterm:{}:{}:{}", y, i, off), format!("instant {} -> term k={} want {}", inst, g, wantk)); },
          None => out.fail(format!("timeterm:{}:{}:{}", y, i, off), "panic".into()),
        }
      }
    }
    if y == lo { out.sample(format!("year {}: 24 terms x (instant, -1s, +1s, random, last second)", y)); }
  }
}

// C06: stepping a term by n equals constructing the term n places later (window -50..50 and +-24k)
fn c06_term_step(lo: i64, hi: i64, out: &mut Out) {
  for y in lo..=hi {
    for i in 0..24i64 {
      let t = SolarTerm::from_index(y as isize, i as isize);
      for n in [-49isize, -25, -24, -23, -1, 0, 1, 23, 24, 25, 47, 48, 240, -240] {
        let k = y * 24 + i + n as i64;
        if k < 24 || k > 9999 * 24 + 23 { continue; }
        out.evaluations += 1;
        let a = t.next(n);
        let b = SolarTerm::from_index(spec::ediv(k, 24) as isize, spec::emod(k, 24) as isize);
        let c = SolarTerm::from_index(y as isize, i as isize + n);
        if a.get_year() != b.get_year() || a.get_index() != b.get_index() || a.get_cursory_julian_day() != b.get_cursory_julian_day()
           || c.get_year() != b.get_year() || c.get_index() != b.get_index() || c.get_cursory_julian_day() != b.get_cursory_julian_day() {
          out.fail(format!("termstep:{}:{}:{}", y, i, n), format!("next -> ({},{}) from_index(y,i+n) -> ({},{}) want ({},{})", a.get_year(), a.get_index(), c.get_year(), c.get_index(), b.get_year(), b.get_index()));
        }
      }
    }
  }
}

// ---------------------------------------------------------------------------------------------
// C07: every civil date of years lo..=hi: day pillar == (jdn+49) mod 60 by all three routes,
//   weekday == (jdn+1) mod 7 by both routes
// ---------------------------------------------------------------------------------------------
fn c07_pillar_week(lo: i64, hi: i64, out: &mut Out) {
  for y in lo..=hi {
    for (yy, m, d) in dates_of_year(y) {
      out.evaluations += 1;
      let n = spec::jdn(yy, m, d);
      let sd = SolarDay::from_ymd(yy as isize, m as usize, d as usize);
      let wp = spec::pillar_of(n) as usize;
      let ww = spec::weekday_of(n) as usize;
      let w1 = sd.get_week().get_index();
      if w1 != ww { out.fail(format!("week:{}-{}-{}", yy, m, d), format!("weekday {} want {}", w1, ww)); }
      let r = guard(|| {
        let ld = sd.get_lunar_day();
        (ld.get_sixty_cycle().get_index(), ld.get_sixty_cycle_day().get_sixty_cycle().get_index(), sd.get_sixty_cycle_day().get_sixty_cycle().get_index(), ld.get_week().get_index())
      });
      match r {
        Some((a, b, c, w2)) => {
          if a != wp || b != wp || c != wp { out.fail(format!("pillar:{}-{}-{}", yy, m, d), format!("lunar route {} lunar->sixty-cycle-day {} civil->sixty-cycle-day {} want {}", a, b, c, wp)); }
          if w2 != ww { out.fail(format!("lweek:{}-{}-{}", yy, m, d), format!("lunar weekday {} want {}", w2, ww)); }
        }
        None => out.fail(format!("pillar:{}-{}-{}", yy, m, d), "panic".into()),
      }
    }
    if y == lo { out.sample(format!("civil year {}: pillar by 3 routes + weekday by 2 routes", y)); }
  }
}


// ---------------------------------------------------------------------------------------------
// C03/C11: LunarMonth::next(n) against the month list: every month of years lo..=hi x step counts
// ---------------------------------------------------------------------------------------------
fn c03_month_step(lo: i64, hi: i64, out: &mut Out) {
  let pad = 112i64;
  let y0 = i64::max(0, lo - pad) as isize;
  let y1 = i64::min(9999, hi + pad) as isize;
  let mut list: Vec<(isize, isize)> = vec![];
  let mut start_of: std::collections::HashMap<isize, usize> = std::collections::HashMap::new();
  for y in y0..=y1 { start_of.insert(y, list.len()); for m in months_of(y) { list.push((y, m)); } }
  let mut steps: Vec<isize> = (-40..=40).collect();
  steps.extend_from_slice(&[100, -100, 1237, -1237]);
  for y in lo..=hi {
    let y = y as isize;
    let base = start_of[&y];
    let ms = months_of(y);
    // year listing == stepping
    out.evaluations += 1;
    match guard(|| LunarYear::from_year(y).get_months().iter().map(|m| (m.get_year(), m.get_month_with_leap())).collect::<Vec<_>>()) {
      Some(v) => { let want: Vec<(isize, isize)> = ms.iter().map(|&m| (y, m)).collect(); if y < 9999 && v != want { out.fail(format!("yearlist:{}", y), format!("{:?}", v)); } }
      None => if y < 9999 { out.fail(format!("yearlist:{}", y), "panic".into()) },
    }
    if y < 9999 {
      let cnt = LunarYear::from_year(y).get_month_count();
      if cnt != ms.len() { out.fail(format!("monthcount:{}", y), format!("{}", cnt)); }
    }
    for (i, &m) in ms.iter().enumerate() {
      let lm = LunarMonth::from_ym(y, m);
      for &n in steps.iter() {
        let t = base as isize + i as isize + n;
        if t < 0 || t as usize >= list.len() { continue; }
        let want = list[t as usize];
        if (want.0 as i64) < 0 || want.0 > 9999 { continue; }
        out.evaluations += 1;
        match guard(|| { let r = lm.next(n); (r.get_year(), r.get_month_with_leap(), r.next(-n)) }) {
          Some((ry, rm, back)) => {
            if (ry, rm) != want { out.fail(format!("step:{}:{}:{}", y, m, n), format!("-> ({},{}) want {:?}", ry, rm, want)); }
            if back.get_year() != y || back.get_month_with_leap() != m { out.fail(format!("stepback:{}:{}:{}", y, m, n), format!("next({}).next({}) -> ({},{})", n, -n, back.get_year(), back.get_month_with_leap())); }
          }
          None => out.fail(format!("step:{}:{}:{}", y, m, n), "panic".into()),
        }
      }
    }
    if y as i64 == lo { out.sample(format!("lunar year {}: {} months x {} step counts", y, ms.len(), steps.len())); }
  }
}


// ---------------------------------------------------------------------------------------------
// C19: stem / branch / pillar / star attributes against the first-principles encoding (finite domains,
// enumerated completely)
// ---------------------------------------------------------------------------------------------
macro_rules! chk { ($out:expr, $key:expr, $got:expr, $want:expr) => {{ $out.evaluations += 1; let g = $got as i64; let w = $want as i64; if g != w { $out.fail($key, format!("got {} want {}", g, w)); } }} }

fn c19_attributes(out: &mut Out) {
  use crate::spec as sp;
  for s in 0..10i64 {
    let h = HeavenStem::from_index(s as isize);
    chk!(out, format!("stem_element:{}", s), h.get_element().get_index(), sp::stem_element(s));
    chk!(out, format!("stem_polarity:{}", s), if h.get_yin_yang() == YinYang::YANG { 0 } else { 1 }, sp::polarity(s));
    chk!(out, format!("stem_direction:{}", s), h.get_direction().get_index(), sp::element_direction(sp::stem_element(s)));
    chk!(out, format!("stem_joy:{}", s), h.get_joy_direction().get_index(), sp::joy_direction(s));
    chk!(out, format!("stem_yang_noble:{}", s), h.get_yang_direction().get_index(), sp::noble_direction(s, true));
    chk!(out, format!("stem_yin_noble:{}", s), h.get_yin_direction().get_index(), sp::noble_direction(s, false));
    chk!(out, format!("stem_wealth:{}", s), h.get_wealth_direction().get_index(), sp::wealth_direction(s));
    chk!(out, format!("stem_mascot:{}", s), h.get_mascot_direction().get_index(), sp::mascot_direction(s));
    chk!(out, format!("stem_combine:{}", s), h.get_combine().get_index(), sp::stem_combine_partner(s));
    chk!(out, format!("stem_combine_involution:{}", s), h.get_combine().get_combine().get_index(), s);
    for t in 0..10i64 {
      let o = HeavenStem::from_index(t as isize);
      chk!(out, format!("ten_star:{}:{}", s, t), h.get_ten_star(o.clone()).get_index(), sp::ten_star(s, t));
      let c = h.combine(o.clone());
      let want = if t == sp::stem_combine_partner(s) { sp::stem_combine_element(s) } else { -1 };
      chk!(out, format!("stem_combine_element:{}:{}", s, t), c.map(|e| e.get_index() as i64).unwrap_or(-1), want);
    }
    for b in 0..12i64 {
      chk!(out, format!("terrain:{}:{}", s, b), h.get_terrain(EarthBranch::from_index(b as isize)).get_index(), sp::growth_stage(s, b));
    }
  }
  for b in 0..12i64 {
    let e = EarthBranch::from_index(b as isize);
    chk!(out, format!("branch_element:{}", b), e.get_element().get_index(), sp::branch_element(b));
    chk!(out, format!("branch_polarity:{}", b), if e.get_yin_yang() == YinYang::YANG { 0 } else { 1 }, sp::polarity(b));
    let (m0, m1, m2) = sp::hidden_stems(b);
    chk!(out, format!("hide_main:{}", b), e.get_hide_heaven_stem_main().get_index(), m0);
    chk!(out, format!("hide_middle:{}", b), e.get_hide_heaven_stem_middle().map(|x| x.get_index() as i64).unwrap_or(-1), m1);
    chk!(out, format!("hide_residual:{}", b), e.get_hide_heaven_stem_residual().map(|x| x.get_index() as i64).unwrap_or(-1), m2);
    let hs: Vec<i64> = e.get_hide_heaven_stems().iter().map(|x| x.get_heaven_stem().get_index() as i64).collect();
    let want: Vec<i64> = [m0, m1, m2].iter().cloned().filter(|&x| x >= 0).collect();
    out.evaluations += 1;
    if hs != want { out.fail(format!("hide_list:{}", b), format!("{:?} want {:?}", hs, want)); }
    chk!(out, format!("zodiac:{}", b), e.get_zodiac().get_index(), b);
    chk!(out, format!("branch_direction:{}", b), e.get_direction().get_index(), sp::element_direction(sp::branch_element(b)));
    chk!(out, format!("clash:{}", b), e.get_opposite().get_index(), sp::clash(b));
    chk!(out, format!("clash_involution:{}", b), e.get_opposite().get_opposite().get_index(), b);
    chk!(out, format!("ominous:{}", b), e.get_ominous().get_index(), sp::ominous_direction(b));
    chk!(out, format!("six_combine:{}", b), e.get_combine().get_index(), sp::six_combine(b).0);
    chk!(out, format!("six_combine_involution:{}", b), e.get_combine().get_combine().get_index(), b);
    chk!(out, format!("harm:{}", b), e.get_harm().get_index(), sp::harm(b));
    chk!(out, format!("harm_involution:{}", b), e.get_harm().get_harm().get_index(), b);
    for t in 0..12i64 {
      let c = e.combine(EarthBranch::from_index(t as isize));
      let want = if t == sp::six_combine(b).0 { sp::six_combine(b).1 } else { -1 };
      chk!(out, format!("six_combine_element:{}:{}", b, t), c.map(|x| x.get_index() as i64).unwrap_or(-1), want);
    }
  }
  for p in 0..60i64 {
    let c = SixtyCycle::from_index(p as isize);
    chk!(out, format!("pillar_stem:{}", p), c.get_heaven_stem().get_index(), p % 10);
    chk!(out, format!("pillar_branch:{}", p), c.get_earth_branch().get_index(), p % 12);
    chk!(out, format!("pillar_crt:{}", p), sp::pillar_index(p % 10, p % 12), p);
    chk!(out, format!("nayin:{}", p), c.get_sound().get_index(), sp::nayin(p));
    chk!(out, format!("xun:{}", p), c.get_ten().get_index(), sp::xun(p));
    let v = c.get_extra_earth_branches();
    let (a, b) = sp::void_branches(p);
    chk!(out, format!("void0:{}", p), v[0].get_index(), a);
    chk!(out, format!("void1:{}", p), v[1].get_index(), b % 12);
    let f = FetusDay::new(c.clone());
    let (side, dir) = sp::fetus_day_place(p);
    chk!(out, format!("fetus_side:{}", p), if f.get_side() == Side::IN { 0 } else { 1 }, side);
    chk!(out, format!("fetus_direction:{}", p), f.get_direction().get_index(), dir);
    chk!(out, format!("fetus_stem:{}", p), f.get_fetus_heaven_stem().get_index(), (p % 10) % 5);
    chk!(out, format!("fetus_branch:{}", p), f.get_fetus_earth_branch().get_index(), (p % 12) % 6);
    // name <-> pillar (the decomposition used by every from_name(format!(stem, branch)) site)
    out.evaluations += 1;
    let name = format!("{}{}", HeavenStem::from_index(p as isize).get_name(), EarthBranch::from_index(p as isize).get_name());
    if c.get_name() != name || SixtyCycle::from_name(&name).get_index() as i64 != p { out.fail(format!("pillar_name:{}", p), name); }
  }
  for e in 0..5i64 {
    let x = Element::from_index(e as isize);
    chk!(out, format!("element_direction:{}", e), x.get_direction().get_index(), sp::element_direction(e));
    chk!(out, format!("reinforce:{}", e), x.get_reinforce().get_index(), sp::generates(e));
    chk!(out, format!("restrain:{}", e), x.get_restrain().get_index(), sp::overcomes(e));
    chk!(out, format!("reinforced_inverse:{}", e), x.get_reinforced().get_reinforce().get_index(), e);
    chk!(out, format!("restrained_inverse:{}", e), x.get_restrained().get_restrain().get_index(), e);
  }
  for d in 0..9i64 {
    chk!(out, format!("direction_element:{}", d), Direction::from_index(d as isize).get_element().get_index(), sp::direction_element(d));
    let ns = NineStar::from_index(d as isize);
    chk!(out, format!("ninestar_element:{}", d), ns.get_element().get_index(), sp::direction_element(d));
    chk!(out, format!("ninestar_direction:{}", d), ns.get_direction().get_index(), d);
    chk!(out, format!("ninestar_dipper:{}", d), ns.get_dipper().get_index(), d);
    chk!(out, format!("land_direction:{}", d), Land::from_index(d as isize).get_direction().get_index(), d);
    out.evaluations += 1;
    let col = ["白", "黑", "碧", "绿", "黄", "白", "赤", "白", "紫"][d as usize];
    if ns.get_color() != col { out.fail(format!("ninestar_color:{}", d), ns.get_color()); }
  }
  for i in 0..28i64 {
    let t = TwentyEightStar::from_index(i as isize);
    chk!(out, format!("mansion_luminary:{}", i), t.get_seven_star().get_index(), sp::mansion_luminary(i));
    chk!(out, format!("mansion_land:{}", i), t.get_land().get_index(), sp::mansion_land(i));
    chk!(out, format!("mansion_zone:{}", i), t.get_zone().get_index(), sp::mansion_zone(i));
    chk!(out, format!("mansion_animal:{}", i), t.get_animal().get_index(), i);
    chk!(out, format!("mansion_luck:{}", i), t.get_luck().get_index(), sp::mansion_luck(i));
  }
  for z in 0..4i64 {
    let zn = Zone::from_index(z as isize);
    chk!(out, format!("zone_beast:{}", z), zn.get_beast().get_index(), z);
    chk!(out, format!("zone_direction:{}", z), zn.get_direction().get_index(), [sp::E, sp::N, sp::W, sp::S][z as usize]);
  }
  for i in 0..12i64 {
    chk!(out, format!("twelve_ecliptic:{}", i), TwelveStar::from_index(i as isize).get_ecliptic().get_index(), sp::twelve_star_ecliptic(i));
  }
  for i in 0..2i64 {
    chk!(out, format!("ecliptic_luck:{}", i), tyme4rs::tyme::culture::star::twelve::Ecliptic::from_index(i as isize).get_luck().get_index(), i);
  }
  for i in 0..9i64 { chk!(out, format!("twenty_sixty:{}", i), Twenty::from_index(i as isize).get_sixty().get_index(), i / 3); }
  for i in 0..72i64 { chk!(out, format!("phenology_three:{}", i), tyme4rs::tyme::culture::phenology::Phenology::from_index(i as isize).get_three_phenology().get_index(), i % 3); }
  for i in 0..6i64 {
    let r = tyme4rs::tyme::culture::ren::minor::MinorRen::from_index(i as isize);
    chk!(out, format!("minor_ren_luck:{}", i), r.get_luck().get_index(), i % 2);
    // 大安木 留连水 速喜火 赤口金 小吉木 空亡土
    chk!(out, format!("minor_ren_element:{}", i), r.get_element().get_index(), [sp::WOOD, sp::WATER, sp::FIRE, sp::METAL, sp::WOOD, sp::EARTH][i as usize]);
  }
  // eight-character derived signs: 胎元 = month stem + 1, month branch + 3; 胎息 = the stem / branch that combine (合) with the
  // day pillar; 命宫 / 身宫: a palace branch whose stem is found from the year stem like a month stem (Five Tigers)
  {
    use tyme4rs::tyme::eightchar::EightChar;
    for p in 0..60i64 {
      let c = SixtyCycle::from_index(p as isize);
      let e = EightChar::from_sixty_cycle(SixtyCycle::from_index(0), c.clone(), c.clone(), SixtyCycle::from_index(0));
      chk!(out, format!("fetal_origin:{}", p), e.get_fetal_origin().get_index(), sp::pillar_index(sp::md(p % 10 + 1, 10), sp::md(p % 12 + 3, 12)));
      chk!(out, format!("fetal_breath:{}", p), e.get_fetal_breath().get_index(), sp::pillar_index(sp::stem_combine_partner(p % 10), sp::six_combine(p % 12).0));
    }
    for ys in 0..10i64 { for mb in 0..12i64 { for hb in 0..12i64 {
      let year = SixtyCycle::from_index(sp::pillar_index(ys, ys % 2) as isize);
      let month = SixtyCycle::from_index(sp::pillar_index(mb % 2, mb) as isize);
      let hour = SixtyCycle::from_index(sp::pillar_index(hb % 2, hb) as isize);
      let e = EightChar::from_sixty_cycle(year, month, SixtyCycle::from_index(0), hour);
      for (tag, g) in [("own_sign", guard(|| e.get_own_sign().get_index() as i64)), ("body_sign", guard(|| e.get_body_sign().get_index() as i64))] {
        out.evaluations += 1;
        match g {
          Some(pi) => { let (st, br) = (pi % 10, pi % 12); if st != sp::md(sp::five_tigers(ys) + sp::md(br - 2, 12), 10) { out.fail(format!("{}:{}:{}:{}", tag, ys, mb, hb), format!("pillar {} does not follow the Five-Tigers rule of year stem {}", pi, ys)); } }
          None => out.fail(format!("{}:{}:{}:{}", tag, ys, mb, hb), "panic (illegal stem/branch pair)".into()),
        }
      }
    } } }
  }
  // zodiac signs over all 366 month-day combinations
  for m in 1..=12i64 {
    for d in 1..=31i64 {
      if !spec::valid_date(2000, m, d) { continue; }
      chk!(out, format!("sign:{}-{}", m, d), SolarDay::from_ymd(2000, m as usize, d as usize).get_constellation().get_index(), sp::zodiac_sign(m, d));
    }
  }
  out.sample("all 10 stems, 12 branches, 10x10 / 10x12 / 12x12 pairs, 60 pillars, 9 stars, 28 mansions, 366 month-days".to_string());
}

// ---------------------------------------------------------------------------------------------
// C11: index <-> name lookups are mutually inverse for every cyclic type; unknown names are refused.
// (domains finite, enumerated completely; the type list is maintained by hand against the generated
//  Kani cycle harness list - a type missing here shows up as a registry mismatch)
// ---------------------------------------------------------------------------------------------
macro_rules! names_of { ($out:expr, $tag:expr, $T:ty, $n:expr) => {{
  for i in 0..$n as isize {
    $out.evaluations += 1;
    let x = <$T>::from_index(i);
    let name = x.get_name();
    match guard(|| <$T>::from_name(&name).get_index()) {
      Some(j) => if j as isize != i { $out.fail(format!("name_inverse:{}:{}", $tag, i), format!("from_name({}) -> {}", name, j)); },
      None => $out.fail(format!("name_inverse:{}:{}", $tag, i), "panic".into()),
    }
  }
  $out.evaluations += 1;
  if guard(|| <$T>::from_name("不存在的名字").get_index()).is_some() { $out.fail(format!("unknown_name:{}", $tag), "accepted".into()); }
}} }

fn c11_names(out: &mut Out) {
  use tyme4rs::tyme::culture::star::{nine::*, seven::*, six::*, ten::*, twelve::*, twenty_eight::*};
  use tyme4rs::tyme::culture::{dog::Dog, nine::Nine, phenology::*, plumrain::PlumRain, ren::minor::MinorRen, peng_zu::*, fetus::*};
  names_of!(out, "HeavenStem", HeavenStem, 10); names_of!(out, "EarthBranch", EarthBranch, 12); names_of!(out, "SixtyCycle", SixtyCycle, 60);
  names_of!(out, "Animal", Animal, 28); names_of!(out, "Beast", Beast, 4); names_of!(out, "Constellation", Constellation, 12);
  names_of!(out, "Direction", Direction, 9); names_of!(out, "Duty", Duty, 12); names_of!(out, "Element", Element, 5);
  names_of!(out, "God", God, 151); names_of!(out, "Land", Land, 9); names_of!(out, "Luck", Luck, 2); names_of!(out, "Phase", Phase, 30);
  names_of!(out, "Sixty", Sixty, 3); names_of!(out, "Sound", Sound, 30); names_of!(out, "Taboo", Taboo, 141); names_of!(out, "Ten", Ten, 6);
  names_of!(out, "Terrain", Terrain, 12); names_of!(out, "Twenty", Twenty, 9); names_of!(out, "Week", Week, 7); names_of!(out, "Zodiac", Zodiac, 12);
  names_of!(out, "Zone", Zone, 4); names_of!(out, "Dog", Dog, 3); names_of!(out, "Nine", Nine, 9); names_of!(out, "Phenology", Phenology, 72);
  names_of!(out, "ThreePhenology", ThreePhenology, 3); names_of!(out, "PlumRain", PlumRain, 2); names_of!(out, "MinorRen", MinorRen, 6);
  names_of!(out, "PengZuHeavenStem", PengZuHeavenStem, 10); names_of!(out, "PengZuEarthBranch", PengZuEarthBranch, 12);

  names_of!(out, "Dipper", Dipper, 9); names_of!(out, "NineStar", NineStar, 9); names_of!(out, "SevenStar", SevenStar, 7); names_of!(out, "SixStar", SixStar, 6);
  names_of!(out, "TenStar", TenStar, 10); names_of!(out, "Ecliptic", Ecliptic, 2); names_of!(out, "TwelveStar", TwelveStar, 12); names_of!(out, "TwentyEightStar", TwentyEightStar, 28);
  names_of!(out, "LunarSeason", LunarSeason, 12);
  out.sample("41 cyclic types: from_name(from_index(i).get_name()).index == i for every i; unknown name refused".to_string());
}


pub fn abs_sec(t: &SolarTime) -> i64 { spec::jdn(t.get_year() as i64, t.get_month() as i64, t.get_day() as i64) * 86400 + spec::sod(t.get_hour() as i64, t.get_minute() as i64, t.get_second() as i64) }
const SEC_MIN: i64 = 1721424 * 86400;
const SEC_MAX: i64 = 5373485 * 86400 - 1;

fn instants_of_year(y: i64, rng: &mut u64) -> Vec<SolarTime> {
  let mut v = vec![];
  let dates = dates_of_year(y);
  let mut picks = vec![dates[0], dates[dates.len() - 1], dates[58 % dates.len()], dates[59 % dates.len()]];
  if y == 1582 { picks.push((1582, 10, 4)); picks.push((1582, 10, 15)); }
  for _ in 0..crate::mult(3, 20) { picks.push(dates[(lcg(rng) as usize) % dates.len()]); }
  for (yy, m, d) in picks {
    for (h, mi, s) in [(0usize, 0usize, 0usize), (23, 59, 59), (12, 0, 0), (13, 1, 0), (0, 10, 0), ((lcg(rng) % 24) as usize, (lcg(rng) % 60) as usize, (lcg(rng) % 60) as usize)] {
      v.push(SolarTime::from_ymd_hms(yy as isize, m as usize, d as usize, h, mi, s));
    }
  }
  v
}

// C12: next(n) moves the absolute second by exactly n; subtract == difference; order == sign
fn c12_step(lo: i64, hi: i64, seed: u64, out: &mut Out) {
  let mut rng = seed ^ 0xabcdef ^ ((lo as u64) << 17);
  let offs: [i64; 22] = [0, 1, -1, 59, -59, 60, -60, 3599, -3601, 3600, 86399, -86399, 86400, -86400, -84000, 31536000, -31536000, 1000000000, -1000000000, 864000, -864000, 7200];
  for y in lo..=hi {
    for t in instants_of_year(y, &mut rng) {
      let a = abs_sec(&t);
      let r1 = (lcg(&mut rng) % 2000000) as i64 - 1000000;
      for n in offs.iter().cloned().chain([r1].into_iter()) {
        if a + n < SEC_MIN || a + n > SEC_MAX { continue; }
        out.evaluations += 1;
        match guard(|| t.next(n as isize)) {
          Some(r) => {
            let b = abs_sec(&r);
            if b != a + n { out.fail(format!("step:{}:{}", t, n), format!("-> {} ({} s instead of {})", r, b - a, n)); continue; }
            if r.subtract(t) as i64 != n || t.subtract(r) as i64 != -n { out.fail(format!("subtract:{}:{}", t, n), format!("{}", r.subtract(t))); }
            if r.is_after(t) != (n > 0) || r.is_before(t) != (n < 0) || t.is_before(r) != (n > 0) { out.fail(format!("order:{}:{}", t, n), "before/after".into()); }
          }
          None => out.fail(format!("step:{}:{}", t, n), "panic".into()),
        }
      }
    }
    if y == lo { out.sample(format!("year {}: 42+ instants x 23 offsets", y)); }
  }
}

// C12: instant -> Julian date -> instant, rounding-critical seconds on month/year ends and random days
fn c12_roundtrip(lo: i64, hi: i64, seed: u64, out: &mut Out) {
  let mut rng = seed ^ 0x1234567 ^ ((lo as u64) << 13);
  for y in lo..=hi {
    let dates = dates_of_year(y);
    let mut picks: Vec<(i64, i64, i64)> = vec![];
    for m in 1..=12 { picks.push((y, m, 1)); let l = if y == 1582 && m == 10 { 31 } else { spec::std_len(y, m) }; picks.push((y, m, l)); }
    if y == 1582 { picks.push((1582, 10, 4)); picks.push((1582, 10, 15)); }
    for _ in 0..4 { picks.push(dates[(lcg(&mut rng) as usize) % dates.len()]); }
    for (yy, m, d) in picks {
      let mut secs: Vec<i64> = vec![0, 1, 59, 60, 3599, 3600, 43199, 43200, 43201, 86398, 86399, 86340, 82800];
      for _ in 0..crate::mult(40, 400) { secs.push((lcg(&mut rng) % 86400) as i64); }
      for sd in secs {
        out.evaluations += 1;
        let t = SolarTime::from_ymd_hms(yy as isize, m as usize, d as usize, (sd / 3600) as usize, ((sd / 60) % 60) as usize, (sd % 60) as usize);
        match guard(|| t.get_julian_day().get_solar_time()) {
          Some(r) => if r != t { out.fail(format!("jdrt:{}", t), format!("-> {}", r)); },
          None => out.fail(format!("jdrt:{}", t), "panic".into()),
        }
      }
    }
    if y == lo { out.sample(format!("year {}: 24+ month ends x 53 seconds of day", y)); }
  }
}

// C12: fractional Julian dates around every rounding / carry boundary -> valid instant within half a second
fn c12_fraction(lo: i64, hi: i64, seed: u64, out: &mut Out) {
  let mut rng = seed ^ 0x777 ^ ((lo as u64) << 11);
  for y in lo..=hi {
    let dates = dates_of_year(y);
    let mut picks: Vec<(i64, i64, i64)> = vec![dates[0], dates[dates.len() - 1]];
    for m in 1..=12 { let l = if y == 1582 && m == 10 { 31 } else { spec::std_len(y, m) }; picks.push((y, m, l)); }
    if y == 1582 { picks.push((1582, 10, 4)); }
    picks.push(dates[(lcg(&mut rng) as usize) % dates.len()]);
    for (yy, m, d) in picks {
      let n = spec::jdn(yy, m, d);
      // seconds-of-day boundaries: end of day, end of an hour, end of a minute, noon
      for base in [86400i64, 3600 * ((lcg(&mut rng) % 24) as i64 + 1), 60 * ((lcg(&mut rng) % 1440) as i64 + 1), 43200] {
        for k in -12i64..=12 {
          let sec = base as f64 + (k as f64) / 16.0 - 0.5;     // around xx:59:59.5
          let jd = (n as f64) - 0.5 + sec / 86400.0;
          let want_abs = n as f64 * 86400.0 + sec;              // absolute seconds of the input
          if want_abs + 0.5 > (SEC_MAX + 1) as f64 { continue; } // rounds into year 10000: outside the supported range
          out.evaluations += 1;
          match guard(|| JulianDay::from_julian_day(jd).get_solar_time()) {
            Some(r) => {
              let got = abs_sec(&r) as f64;
              // half a second plus the f64 resolution of a Julian date (~4e-5 s at 5e6 days)
              if (got - want_abs).abs() > 0.5 + 1e-4 { out.fail(format!("frac:{}-{}-{}:{}:{}", yy, m, d, base, k), format!("jd {} -> {} off by {} s", jd, r, got - want_abs)); }
            }
            None => out.fail(format!("frac:{}-{}-{}:{}:{}", yy, m, d, base, k), format!("jd {} panics", jd)),
          }
        }
      }
    }
    if y == lo { out.sample(format!("year {}: 15+ dates x 4 boundaries x 25 sixteenths of a second", y)); }
  }
}

// C13 (civil): day-of-year and year length agree with the month lists; every list entry exists
fn c13_solar(lo: i64, hi: i64, out: &mut Out) {
  for y in lo..=hi {
    let sy = SolarYear::from_year(y as isize);
    let mut doy = 0usize;
    let months = sy.get_months();
    if months.len() != 12 { out.fail(format!("months:{}", y), format!("{}", months.len())); }
    for (mi, sm) in months.iter().enumerate() {
      out.evaluations += 1;
      let days = match guard(|| sm.get_days()) { Some(v) => v, None => { out.fail(format!("days:{}-{}", y, mi + 1), "panic".into()); continue; } };
      if days.len() != sm.get_day_count() || days.len() as i64 != spec::month_len(y, mi as i64 + 1) { out.fail(format!("days:{}-{}", y, mi + 1), format!("{} listed, count {}", days.len(), sm.get_day_count())); }
      let mut prev: Option<i64> = None;
      for d in days.iter() {
        if d.get_index_in_year() != doy { out.fail(format!("doy:{}", d), format!("index in year {} but list position {}", d.get_index_in_year(), doy)); }
        let n = jdn_sd(d);
        if let Some(p) = prev { if n != p + 1 { out.fail(format!("dayorder:{}", d), "not consecutive".into()); } }
        prev = Some(n);
        doy += 1;
      }
    }
    if doy != sy.get_day_count() || doy as i64 != spec::year_len(y) { out.fail(format!("yearlen:{}", y), format!("{} days listed, count {}", doy, sy.get_day_count())); }
    if y == lo { out.sample(format!("civil year {}: 12 month lists, {} days", y, doy)); }
  }
}

// C13 (lunar / sexagenary): month -> days, day -> hours, sexagenary year -> months, month -> days
fn c13_lunar(lo: i64, hi: i64, out: &mut Out) {
  use tyme4rs::tyme::sixtycycle::{SixtyCycleYear, SixtyCycleDay};
  for y in lo..=hi {
    let y = y as isize;
    for m in months_of(y) {
      out.evaluations += 1;
      let lm = LunarMonth::from_ym(y, m);
      let first = lm.get_first_julian_day().get_day() as i64;
      if first < 1721424 || first + 30 > 5373484 { continue; }
      let days = match guard(|| lm.get_days()) { Some(v) => v, None => { out.fail(format!("ldays:{}:{}", y, m), "panic".into()); continue; } };
      if days.len() != lm.get_day_count() { out.fail(format!("ldays:{}:{}", y, m), format!("{} listed, count {}", days.len(), lm.get_day_count())); continue; }
      for (i, d) in days.iter().enumerate() {
        if d.get_year() != y || d.get_month() != m || d.get_day() != i + 1 { out.fail(format!("ldays:{}:{}", y, m), format!("entry {} is {}", i, d)); break; }
      }
      // hours of the first, middle and last day
      for &i in [0usize, (y as usize * 7 + m.unsigned_abs() * 3 + crate::ROT.load(std::sync::atomic::Ordering::Relaxed)) % days.len(), days.len() - 1].iter() {
        out.evaluations += 1;
        let d = &days[i];
        let hs = d.get_hours();
        let want: Vec<usize> = vec![0, 1, 3, 5, 7, 9, 11, 13, 15, 17, 19, 21, 23];
        let got: Vec<usize> = hs.iter().map(|h| h.get_hour()).collect();
        if got != want || hs.iter().any(|h| h.get_lunar_day() != *d || h.get_minute() != 0 || h.get_second() != 0) { out.fail(format!("lhours:{}:{}:{}", y, m, i + 1), format!("{:?}", got)); }
        // sexagenary day: 12 slots from 23:00 of the previous day in 7200 s steps
        let sd = match guard(|| d.get_solar_day()) { Some(v) => v, None => continue };
        if sd.get_year() < 2 { continue; }
        match guard(|| SixtyCycleDay::from_solar_day(sd).get_hours()) {
          Some(shs) => {
            let base = (jdn_sd(&sd) - 1) * 86400 + 23 * 3600;
            let ok = shs.len() == 12 && shs.iter().enumerate().all(|(k, h)| abs_sec(&h.get_solar_time()) == base + 7200 * k as i64 && h.get_index_in_day() == k);
            if !ok { out.fail(format!("shours:{}", sd), format!("{} slots", shs.len())); }
          }
          None => out.fail(format!("shours:{}", sd), "panic".into()),
        }
      }
    }
    // sexagenary year -> months -> days (every year)
    if y >= 2 && y <= 9997 {
      out.evaluations += 1;
      let sy = SixtyCycleYear::from_year(y);
      let ms = sy.get_months();
      if ms.len() != 12 || ms.iter().enumerate().any(|(i, m)| m.get_index_in_year() != i || m.get_sixty_cycle_year().get_year() != y) { out.fail(format!("smonths:{}", y), format!("{}", ms.len())); }
      for (i, sm) in ms.iter().enumerate() {
        out.evaluations += 1;
        // Jie day of this month and of the next
        let k = (y as i64) * 24 + 3 + 2 * i as i64;
        let td = |k: i64| jdn_sd(&SolarTerm::from_index(spec::ediv(k, 24) as isize, spec::emod(k, 24) as isize).get_julian_day().get_solar_day());
        let (a, b) = (td(k), td(k + 2));
        match guard(|| sm.get_days()) {
          Some(ds) => {
            let ok = ds.len() as i64 == b - a && ds.iter().enumerate().all(|(j, d)| jdn_sd(&d.get_solar_day()) == a + j as i64);
            if !ok { out.fail(format!("sdays:{}:{}", y, i), format!("{} days listed, Jie days {}..{}", ds.len(), a, b)); }
          }
          None => out.fail(format!("sdays:{}:{}", y, i), "panic".into()),
        }
      }
    }
    if y as i64 == lo { out.sample(format!("lunar year {}: month day lists, 3 hour lists per month", y)); }
  }
}

// C11: group laws for the object-heavy linear units, by execution (one anchor per year)
fn c11_linear(lo: i64, hi: i64, seed: u64, out: &mut Out) {
  use tyme4rs::tyme::sixtycycle::{SixtyCycleYear, SixtyCycleMonth, SixtyCycleDay, SixtyCycleHour};
  use tyme4rs::tyme::festival::{SolarFestival, LunarFestival};
  let mut rng = seed ^ 0x5151 ^ ((lo as u64) << 9);
  if lo <= 1 {
    // lower end of the supported range: sexagenary months of years -1, 0, 1 and lunar festivals of years 0, 1 stepped across
    // year 0 / -1 ("results stay in range": sexagenary and lunar years start at -1)
    for yy in [-1isize, 0, 1] {
      for idx in 0..12isize {
        for n in [-13isize, -12, -1, 1, 12, 13, 25] {
          let t = yy * 12 + idx + n;
          if t < -12 { continue; }
          out.evaluations += 1;
          let r = guard(|| { let x = SixtyCycleMonth::from_index(yy, idx); let z = x.next(n); let back = z.next(-n);
            (x.get_sixty_cycle_year().get_year() * 12 + x.get_index_in_year() as isize, z.get_sixty_cycle_year().get_year() * 12 + z.get_index_in_year() as isize, back == x && back.get_sixty_cycle_year() == x.get_sixty_cycle_year(),
             z == SixtyCycleMonth::from_index(t.div_euclid(12), t.rem_euclid(12)) && z.get_sixty_cycle_year().get_year() == t.div_euclid(12)) });
          match r {
            Some((o0, o1, back, same)) => if o1 - o0 != n || !back || !same { out.fail(format!("unit:SixtyCycleMonth:{}:{}:{}", yy, idx, n), format!("position {} -> {}, there-and-back {}, equals the month at that position {}", o0, o1, back, same)); },
            None => out.fail(format!("unit:SixtyCycleMonth:{}:{}:{}", yy, idx, n), "panic".into()),
          }
        }
      }
    }
    for yy in [0isize, 1] {
      for idx in [0usize, 5, 12] {
        for n in [-1isize, -5, -13, -14, -20] {
          let t = yy * 13 + idx as isize + n;
          if t < 0 { continue; }   // lunar year -1 has no constructible months (LunarMonth::new needs the year before): out of range
          if t.div_euclid(13) == 0 && (t.rem_euclid(13) == 4 || t.rem_euclid(13) == 10) { continue; }   // term festivals of lunar year 0 fall in civil year 0: out of range
          out.evaluations += 1;
          let r = guard(|| { let f = LunarFestival::from_index(yy, idx).unwrap(); (f.next(n), LunarFestival::from_index(t.div_euclid(13), t.rem_euclid(13) as usize)) });
          match r {
            Some((got, want)) => if got != want { out.fail(format!("unit:LunarFestival:{}:{}:{}", yy, idx, n), format!("{:?} want {:?}", got.map(|x| x.to_string()), want.map(|x| x.to_string()))); },
            None => out.fail(format!("unit:LunarFestival:{}:{}:{}", yy, idx, n), "panic".into()),
          }
        }
      }
    }
  }
  for y in lo..=hi {
    if y < 70 || y > 9930 || (y >= 230 && y <= 245) { continue; }
    let yi = y as isize;
    let m = (lcg(&mut rng) % 12 + 1) as usize;
    let d = (lcg(&mut rng) % 28 + 1) as usize;
    let (a, b) = ((lcg(&mut rng) % 61) as isize - 30, (lcg(&mut rng) % 61) as isize - 30);
    macro_rules! laws { ($tag:expr, $x:expr, $eq:expr) => {{
      out.evaluations += 1;
      let x = $x;
      let r = guard(|| { let z = x.next(0); let ab = x.next(a).next(b); let s = x.next(a + b); let back = x.next(a).next(-a); ($eq(&z, &x), $eq(&ab, &s), $eq(&back, &x)) });
      match r { Some((true, true, true)) => {}, Some(v) => out.fail(format!("group:{}:{}:{}:{}", $tag, y, a, b), format!("{:?}", v)), None => out.fail(format!("group:{}:{}:{}:{}", $tag, y, a, b), "panic".into()) }
    }} }
    let sd = SolarDay::from_ymd(yi, m, d);
    laws!("SolarDay", sd, |p: &SolarDay, q: &SolarDay| p == q);
    laws!("SolarWeek", sd.get_solar_week((lcg(&mut rng) % 7) as usize), |p: &SolarWeek, q: &SolarWeek| p.get_first_day() == q.get_first_day());
    let ld = sd.get_lunar_day();
    laws!("LunarDay", ld.clone(), |p: &LunarDay, q: &LunarDay| p == q);
    laws!("LunarMonth", ld.get_lunar_month(), |p: &LunarMonth, q: &LunarMonth| p == q);
    laws!("LunarYear", ld.get_lunar_month().get_lunar_year(), |p: &LunarYear, q: &LunarYear| p == q);
    let lw = LunarWeek::from_ym(ld.get_year(), ld.get_month(), 0, (lcg(&mut rng) % 7) as usize);
    laws!("LunarWeek", lw, |p: &LunarWeek, q: &LunarWeek| p.get_first_day() == q.get_first_day());
    let lh = LunarHour::from_ymd_hms(ld.get_year(), ld.get_month(), ld.get_day(), (lcg(&mut rng) % 24) as usize, 5, 7);
    laws!("LunarHour", lh.clone(), |p: &LunarHour, q: &LunarHour| p == q);
    // a lunar hour moves by exactly n double-hours
    out.evaluations += 1;
    if let Some(r) = guard(|| lh.next(a)) { if abs_sec(&r.get_solar_time()) - abs_sec(&lh.get_solar_time()) != 7200 * a as i64 { out.fail(format!("unit:LunarHour:{}:{}", y, a), format!("{} -> {}", lh.get_solar_time(), r.get_solar_time())); } }
    laws!("SixtyCycleYear", SixtyCycleYear::from_year(yi), |p: &SixtyCycleYear, q: &SixtyCycleYear| p == q);
    let scm = SixtyCycleMonth::from_index(yi, (lcg(&mut rng) % 12) as isize);
    laws!("SixtyCycleMonth", scm.clone(), |p: &SixtyCycleMonth, q: &SixtyCycleMonth| p == q && p.get_sixty_cycle_year() == q.get_sixty_cycle_year());
    out.evaluations += 1;
    if let Some(r) = guard(|| scm.next(a)) {
      let o0 = scm.get_sixty_cycle_year().get_year() as i64 * 12 + scm.get_index_in_year() as i64;
      let o1 = r.get_sixty_cycle_year().get_year() as i64 * 12 + r.get_index_in_year() as i64;
      if o1 - o0 != a as i64 { out.fail(format!("unit:SixtyCycleMonth:{}:{}", y, a), format!("{} -> {}", scm, r)); }
    }
    laws!("SixtyCycleDay", SixtyCycleDay::from_solar_day(sd), |p: &SixtyCycleDay, q: &SixtyCycleDay| p == q && p.get_solar_day() == q.get_solar_day());
    let st = SolarTime::from_ymd_hms(yi, m, d, (lcg(&mut rng) % 24) as usize, 30, 0);
    laws!("SixtyCycleHour", SixtyCycleHour::from_solar_time(st), |p: &SixtyCycleHour, q: &SixtyCycleHour| p == q && p.get_solar_time() == q.get_solar_time());
    laws!("SolarTime", st, |p: &SolarTime, q: &SolarTime| p == q);
    laws!("SolarTerm", SolarTerm::from_index(yi, (lcg(&mut rng) % 24) as isize), |p: &SolarTerm, q: &SolarTerm| p.get_year() == q.get_year() && p.get_index() == q.get_index() && p.get_cursory_julian_day() == q.get_cursory_julian_day());
    laws!("SolarMonth", sd.get_solar_month(), |p: &SolarMonth, q: &SolarMonth| p == q);
    laws!("JulianDay", sd.get_julian_day(), |p: &JulianDay, q: &JulianDay| p == q);
    // festivals: Option-valued stepping
    out.evaluations += 1;
    if y >= 1990 {
      let f = SolarFestival::from_index(yi, (lcg(&mut rng) % 10) as usize);
      if let Some(f) = f {
        let r = guard(|| (f.next(a).and_then(|x| x.next(b)), f.next(a + b)));
        match r { Some((Some(p), Some(q))) => if p != q { out.fail(format!("group:SolarFestival:{}:{}:{}", y, a, b), format!("{} vs {}", p, q)); }, _ => {} }
      }
    }
    let lf = LunarFestival::from_index(yi, (lcg(&mut rng) % 13) as usize).unwrap();
    let r = guard(|| (lf.next(a).and_then(|x| x.next(b)), lf.next(a + b), lf.next(0)));
    match r { Some((Some(p), Some(q), Some(z))) => if p != q || z != lf { out.fail(format!("group:LunarFestival:{}:{}:{}", y, a, b), format!("{} vs {}", p, q)); }, Some(_) => out.fail(format!("group:LunarFestival:{}:{}:{}", y, a, b), "None".into()), None => out.fail(format!("group:LunarFestival:{}:{}:{}", y, a, b), "panic".into()) }
    if y == lo { out.sample(format!("year {}: 18 linear units, steps a={} b={}", y, a, b)); }
  }
}
