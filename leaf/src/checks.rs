// Leaf contracts. Each check executes the real library over [lo, hi] of its domain and records every
// input that violates the contract with a stable key (used by known_findings.txt).
#![allow(unused_imports, dead_code)]
use crate::spec;
use crate::Out;
use std::panic::{catch_unwind, AssertUnwindSafe};
use tyme4rs::tyme::{Culture, Tyme};
use tyme4rs::tyme::solar::*;
use tyme4rs::tyme::lunar::*;
use tyme4rs::tyme::jd::JulianDay;

pub fn dispatch(check: &str, lo: i64, hi: i64, seed: u64, thorough: bool, out: &mut Out) -> bool {
  match check {
    "c01_calendar_years" => c01_calendar_years(lo, hi, out),
    _ => return false,
  }
  true
}

fn guard<T>(f: impl FnOnce() -> T) -> Option<T> { catch_unwind(AssertUnwindSafe(f)).ok() }

// paired execution search for C01: every candidate (y, m 0..13, d 0..32) of years lo..hi
fn c01_calendar_years(lo: i64, hi: i64, out: &mut Out) {
  for y in lo..=hi {
    for m in 0..=13i64 {
      for d in 0..=32i64 {
        out.evaluations += 1;
        let want = spec::valid_date(y, m, d);
        let got = guard(|| SolarDay::new(y as isize, m as usize, d as usize).is_ok()).unwrap_or(false);
        if got != want { out.fail(format!("accept:{}-{}-{}", y, m, d), format!("accepted={} exists={}", got, want)); continue; }
        if !want { continue; }
        let n = spec::jdn(y, m, d);
        let sd = SolarDay::from_ymd(y as isize, m as usize, d as usize);
        let jd = sd.get_julian_day().get_day();
        if jd != n as f64 - 0.5 { out.fail(format!("jdn:{}-{}-{}", y, m, d), format!("day count {} want {}", jd, n as f64 - 0.5)); }
        match guard(|| sd.get_julian_day().get_solar_day()) {
          Some(b) => if b != sd { out.fail(format!("back:{}-{}-{}", y, m, d), format!("maps back to {}", b)); },
          None => out.fail(format!("back:{}-{}-{}", y, m, d), "panic".to_string()),
        }
      }
    }
    if y == lo { out.sample(format!("year {}: all 14x33 candidates", y)); }
  }
}
