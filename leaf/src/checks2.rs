// Leaf contracts, part 2: sexagenary year/month/hour pillars, weeks, term-anchored series, child limit,
// almanac recurrences and tables, festivals, history independence, leap-month rule.
#![allow(unused_imports, dead_code)]
use crate::spec;
use crate::spec as sp;
use crate::Out;
use crate::checks::*;
use std::panic::{catch_unwind, AssertUnwindSafe};
use tyme4rs::tyme::{Culture, Tyme};
use tyme4rs::tyme::solar::*;
use tyme4rs::tyme::lunar::*;
use tyme4rs::tyme::jd::JulianDay;
use tyme4rs::tyme::sixtycycle::*;
use tyme4rs::tyme::culture::*;
use tyme4rs::tyme::eightchar::*;
use tyme4rs::tyme::eightchar::provider::*;
use tyme4rs::tyme::enums::*;
use tyme4rs::tyme::festival::*;
use tyme4rs::tyme::holiday::*;
use tyme4rs::tyme::util::ShouXingUtil;

fn guard<T>(f: impl FnOnce() -> T) -> Option<T> { catch_unwind(AssertUnwindSafe(f)).ok() }
fn lcg(s: &mut u64) -> u64 { *s = s.wrapping_mul(6364136223846793005).wrapping_add(1442695040888963407); *s >> 33 }

pub fn dispatch2(check: &str, lo: i64, hi: i64, seed: u64, thorough: bool, out: &mut Out) -> bool {
  match check {
    "c08_day_view" => c08_day_view(lo, hi, out),
    "c08_time_view" => c08_time_view(lo, hi, seed, out),
    "c09_hour_pillar" => c09_hour_pillar(out),
    "c09_compose" => c09_compose(lo, hi, seed, out),
    "c09_inverse" => c09_inverse(lo, hi, seed, out),
    "c14_solar_weeks" => c14_solar_weeks(lo, hi, out),
    "c14_lunar_weeks" => c14_lunar_weeks(lo, hi, out),
    "c15_series" => c15_series(lo, hi, out),
    "c16_child_limit" => c16_child_limit(lo, hi, seed, out),
    "c17_day_series" => c17_day_series(lo, hi, out),
    "c17_year_month_stars" => c17_year_month_stars(lo, hi, out),
    "c18_tables" => c18_tables(lo, hi, out),
    "c18_views" => c18_views(lo, hi, out),
    "c20_festivals" => c20_festivals(lo, hi, out),
    "c20_holidays" => c20_holidays(lo, hi, out),
    "c10_history" => c10_history(lo, hi, seed, out),
    "c10_threads" => c10_threads(lo, hi, seed, out),
    "c10_refusals" => c10_refusals(lo, hi, out),
    "c04_leap_rule" => c04_leap_rule(lo, hi, out),
    _ => return false,
  }
  true
}

/// years whose lunar months overlap / leave gaps (known findings of C03); seed-driven checks skip them so that
/// their failing keys stay stable - the deterministic exhaustive checks (C02, C07, C17, C20) cover these years
fn reform(y: i64) -> bool { (y >= 8 && y <= 25) || (y >= 236 && y <= 241) }
fn stem_of(p: i64) -> i64 { p % 10 }
fn branch_of(p: i64) -> i64 { p % 12 }

/// (year pillar, month pillar) demanded by the rule for absolute Jie-month number mm = floor((k-3)/2),
/// k the absolute number of the governing term: the Yin month of year Y starts at Lichun (k = 24Y+3)
fn ym_pillars(k: i64) -> (i64, i64, i64) {
  let mm = sp::ediv(k - 3, 2);
  let yy = sp::ediv(mm, 12);
  let idx = sp::emod(mm, 12);
  let yp = sp::emod(yy - 4, 60);
  let ms = sp::emod(sp::five_tigers(stem_of(yp)) + idx, 10);
  let mb = sp::emod(2 + idx, 12);
  (yy, yp, sp::pillar_index(ms, mb))
}

// ---------------------------------------------------------------------------------------------
// C08 day view: every civil date of years lo..=hi
// ---------------------------------------------------------------------------------------------
fn c08_day_view(lo: i64, hi: i64, out: &mut Out) {
  let (k0, td) = term_days(lo, hi);
  let mut kk: usize = 0;
  for y in lo..=hi {
    for (yy, m, d) in dates_of_year(y) {
      let n = sp::jdn(yy, m, d);
      while kk + 1 < td.len() && td[kk + 1] <= n { kk += 1; }
      if td[kk] > n { continue; }
      out.evaluations += 1;
      let k = k0 + kk as i64;
      let (_, yp, mp) = ym_pillars(k);
      let sd = SolarDay::from_ymd(yy as isize, m as usize, d as usize);
      match guard(|| { let s = sd.get_sixty_cycle_day(); (s.get_year().get_index() as i64, s.get_month().get_index() as i64, s.get_sixty_cycle_month().get_sixty_cycle_year().get_year() as i64) }) {
        Some((gy, gm, gyy)) => {
          if gy != yp || gm != mp { out.fail(format!("ym:{}-{}-{}", yy, m, d), format!("year pillar {} month pillar {} ; want {} {}", gy, gm, yp, mp)); }
          if sp::emod(gyy - 4, 60) != gy { out.fail(format!("ymyear:{}-{}-{}", yy, m, d), format!("sexagenary year {} vs pillar {}", gyy, gy)); }
        }
        None => out.fail(format!("ym:{}-{}-{}", yy, m, d), "panic".into()),
      }
    }
    if y == lo { out.sample(format!("civil year {}: year+month pillar of every date", y)); }
  }
}

// C08 time view: the second before / at / after every Jie instant, plus a random instant per term
fn c08_time_view(lo: i64, hi: i64, seed: u64, out: &mut Out) {
  let mut rng = seed ^ 0x8080 ^ ((lo as u64) << 15);
  for y in lo..=hi {
    for i in 0..24i64 {
      let k = y * 24 + i;
      if k < 27 || reform(y) { continue; }
      let t = SolarTerm::from_index(y as isize, i as isize);
      let ti = match guard(|| t.get_julian_day().get_solar_time()) { Some(v) => v, None => continue };
      let tn = match guard(|| t.next(1).get_julian_day().get_solar_time()) { Some(v) => v, None => continue };
      let span = tn.subtract(ti);
      let r = 2 + (lcg(&mut rng) as isize % (span - 4));
      for (off, kk) in [(0isize, k), (-1, k - 1), (1, k), (r, k)] {
        let inst = ti.next(off);
        if inst.get_year() < 2 || inst.get_year() > 9998 { continue; }
        out.evaluations += 1;
        let (_, yp, mp) = ym_pillars(kk);
        let n = sp::jdn(inst.get_year() as i64, inst.get_month() as i64, inst.get_day() as i64);
        let dp = sp::emod(sp::pillar_of(n) + if inst.get_hour() == 23 { 1 } else { 0 }, 60);
        match guard(|| { let h = inst.get_sixty_cycle_hour(); (h.get_year().get_index() as i64, h.get_month().get_index() as i64, h.get_day().get_index() as i64) }) {
          Some((gy, gm, gd)) => {
            if gy != yp || gm != mp { out.fail(format!("tym:{}:{}:{}", y, i, off), format!("instant {} year {} month {} ; want {} {}", inst, gy, gm, yp, mp)); }
            if gd != dp { out.fail(format!("tday:{}:{}:{}", y, i, off), format!("instant {} day pillar {} want {}", inst, gd, dp)); }
            // agreement with the day view on days without a Jie
            if off == r {
              let sd = inst.get_solar_day();
              let tdk = jdn_sd(&t.get_julian_day().get_solar_day());
              let tdn = jdn_sd(&t.next(1).get_julian_day().get_solar_day());
              let nn = jdn_sd(&sd);
              if nn != tdk && nn != tdn {
                let dv = sd.get_sixty_cycle_day();
                if dv.get_year().get_index() as i64 != gy || dv.get_month().get_index() as i64 != gm { out.fail(format!("views:{}:{}", y, i), format!("{} day view differs", inst)); }
              }
            }
          }
          None => out.fail(format!("tym:{}:{}:{}", y, i, off), "panic".into()),
        }
      }
    }
    if y == lo { out.sample(format!("year {}: 24 terms x (instant, -1s, +1s, random)", y)); }
  }
}

// ---------------------------------------------------------------------------------------------
// C09: hour pillar for all 60 day pillars x 24 hours (exhaustive); composition; inverse search
// ---------------------------------------------------------------------------------------------
fn c09_hour_pillar(out: &mut Out) {
  // one civil day per day pillar: 2000-01-01 + i
  let base = SolarDay::from_ymd(2000, 1, 1);
  for i in 0..60isize {
    let sd = base.next(i);
    let n = jdn_sd(&sd);
    let p = sp::pillar_of(n);
    for h in 0..24usize {
      for (mi, s) in [(0usize, 0usize), (59, 59)] {
        out.evaluations += 1;
        let t = SolarTime::from_ymd_hms(sd.get_year(), sd.get_month(), sd.get_day(), h, mi, s);
        let lh = t.get_lunar_hour();
        let hb = ((h as i64 + 1) / 2) % 12;
        let dp = sp::emod(p + if h >= 23 { 1 } else { 0 }, 60);
        let hs = sp::emod(sp::five_rats(stem_of(dp)) + hb, 10);
        let want = sp::pillar_index(hs, hb);
        let got = lh.get_sixty_cycle().get_index() as i64;
        if got != want { out.fail(format!("hourpillar:{}:{}", p, h), format!("{} want {}", got, want)); }
        if lh.get_index_in_day() as i64 != (h as i64 + 1) / 2 { out.fail(format!("hourindex:{}:{}", p, h), format!("{}", lh.get_index_in_day())); }
        let sh = t.get_sixty_cycle_hour();
        if sh.get_sixty_cycle().get_index() as i64 != want || sh.get_day().get_index() as i64 != dp || sh.get_index_in_day() as i64 != hb {
          out.fail(format!("sixtyhour:{}:{}", p, h), format!("hour {} day {} idx {}", sh.get_sixty_cycle().get_index(), sh.get_day().get_index(), sh.get_index_in_day()));
        }
        // eight characters == the four pillars (both providers)
        let ec = lh.get_eight_char();
        if ec.get_year() != sh.get_year() || ec.get_month() != sh.get_month() || ec.get_day() != sh.get_day() || ec.get_hour() != sh.get_sixty_cycle() { out.fail(format!("eightchar:{}:{}", p, h), format!("{}", ec)); }
        let e2 = LunarSect2EightCharProvider::new().get_eight_char(lh.clone());
        if e2.get_day().get_index() as i64 != p || e2.get_hour().get_index() as i64 != want { out.fail(format!("eightchar2:{}:{}", p, h), format!("{}", e2)); }
      }
    }
  }
  out.sample("60 day pillars x 24 hours x {xx:00:00, xx:59:59}".to_string());
}

fn c09_compose(lo: i64, hi: i64, seed: u64, out: &mut Out) {
  let mut rng = seed ^ 0x9090 ^ ((lo as u64) << 14);
  for y in lo..=hi {
    if y < 2 || y > 9997 || reform(y) { continue; }
    for _ in 0..crate::mult(6, 40) {
      let dates = dates_of_year(y);
      let (yy, m, d) = dates[(lcg(&mut rng) as usize) % dates.len()];
      let h = (lcg(&mut rng) % 24) as usize;
      let t = SolarTime::from_ymd_hms(yy as isize, m as usize, d as usize, h, (lcg(&mut rng) % 60) as usize, (lcg(&mut rng) % 60) as usize);
      out.evaluations += 1;
      match guard(|| { let sh = t.get_sixty_cycle_hour(); let ec = t.get_lunar_hour().get_eight_char(); (sh.get_year().get_index(), sh.get_month().get_index(), sh.get_day().get_index(), sh.get_sixty_cycle().get_index(), ec) }) {
        Some((a, b, c, e, ec)) => {
          if ec.get_year().get_index() != a || ec.get_month().get_index() != b || ec.get_day().get_index() != c || ec.get_hour().get_index() != e { out.fail(format!("compose:{}", t), format!("{}", ec)); }
          let n = sp::jdn(yy, m, d);
          let dp = sp::emod(sp::pillar_of(n) + if h == 23 { 1 } else { 0 }, 60);
          let hb = ((h as i64 + 1) / 2) % 12;
          if c as i64 != dp || e as i64 != sp::pillar_index(sp::emod(sp::five_rats(stem_of(dp)) + hb, 10), hb) { out.fail(format!("compose_rule:{}", t), format!("day {} hour {}", c, e)); }
        }
        None => out.fail(format!("compose:{}", t), "panic".into()),
      }
      // the same for an hour object reached by stepping after its neighbour has been queried (lazily filled fields)
      out.evaluations += 1;
      let r = guard(|| { let lh = t.get_lunar_hour(); let _ = (lh.get_solar_time(), lh.get_sixty_cycle_hour()); let n = 1 + (h as isize % 3); let nx = lh.next(n);
                         let fresh = t.next(7200 * n).get_lunar_hour(); (nx.get_eight_char().to_string(), fresh.get_eight_char().to_string(), nx.get_sixty_cycle_hour().to_string(), fresh.get_sixty_cycle_hour().to_string()) });
      match r { Some((a, b, c, e)) => if a != b || c != e { out.fail(format!("compose_step:{}", t), format!("stepped hour says {} / a fresh one {}", a, b)); }, None => out.fail(format!("compose_step:{}", t), "panic".into()) }
    }
  }
}

// inverse search: soundness for every returned instant, completeness per double-hour (skipping double-hours
// that contain a Jie instant)
fn c09_inverse(lo: i64, hi: i64, seed: u64, out: &mut Out) {
  let mut rng = seed ^ 0x1991 ^ ((lo as u64) << 12);
  for y in lo..=hi {
    if y < 62 || y > 9870 || reform(y) { continue; }
    if (y + seed as i64) % (crate::mult(5, 1) as i64) != 0 { continue; }
    let dates = dates_of_year(y);
    let (yy, m, d) = dates[(lcg(&mut rng) as usize) % dates.len()];
    let h = (lcg(&mut rng) % 24) as usize;
    let t = SolarTime::from_ymd_hms(yy as isize, m as usize, d as usize, h, (lcg(&mut rng) % 60) as usize, 0);
    let span = 1 + (lcg(&mut rng) % 3) as isize;
    let (a, b) = (yy as isize - 60 * (lcg(&mut rng) % 2) as isize - (lcg(&mut rng) % 2) as isize, yy as isize + 60 * (span - 1));
    // probes: (instant, first year, last year of the search range)
    let mut probes: Vec<(SolarTime, isize, isize)> = vec![(t, a, b), (t, yy as isize, yy as isize)];
    // the ends of a solar-term month: three hours after a Jie instant and three hours before the next one (the day offset from
    // the Jie day to the sought day is then 0 resp. as large as it gets), each searched in an enclosing range and in
    // exactly its own year
    let ji = 1 + 2 * (lcg(&mut rng) % 12) as isize;
    let j0 = SolarTerm::from_index(yy as isize, ji);
    let (t0, t1) = (j0.get_julian_day().get_solar_time().next(3 * 3600), j0.next(2).get_julian_day().get_solar_time().next(-3 * 3600));
    for tt in [t0, t1] {
      if tt.get_year() < 62 || tt.get_year() > 9870 { continue; }
      probes.push((tt, tt.get_year() - (lcg(&mut rng) % 2) as isize, tt.get_year() + 60 * (lcg(&mut rng) % 2) as isize));
      probes.push((tt, tt.get_year(), tt.get_year()));
    }
    // an instant before the start of spring of its civil year (its year pillar is the previous year's), searched from its own year
    let early = SolarTime::from_ymd_hms(yy as isize, 1, 1 + (lcg(&mut rng) % 28) as usize, (lcg(&mut rng) % 24) as usize, 30, 0);
    probes.push((early, yy as isize, yy as isize + 60 * (lcg(&mut rng) % 2) as isize));
    for (t, a, b) in probes {
      let h = t.get_hour();
      // the double-hour [start, end) around t
      let hh = if h % 2 == 1 { h } else { (h + 23) % 24 };
      let start = { let mut s = SolarTime::from_ymd_hms(t.get_year(), t.get_month(), t.get_day(), hh, 0, 0); if h == 0 { s = s.next(-86400); } s };
      let end = start.next(7200);
      // skip if a Jie instant falls inside
      let term = t.get_term();
      let near: Vec<SolarTime> = [term.clone(), term.next(1)].iter().filter(|x| x.is_jie()).map(|x| x.get_julian_day().get_solar_time()).collect();
      if near.iter().any(|j| !j.is_before(start) && j.is_before(end)) { continue; }
      // a double-hour that starts in the previous civil year is not promised for a range starting in this one
      if start.get_year() < a { continue; }
      let ec = t.get_lunar_hour().get_eight_char();
      out.evaluations += 1;
      match guard(|| ec.get_solar_times(a, b)) {
        Some(ts) => {
          for r in ts.iter() {
            if r.get_lunar_hour().get_eight_char() != ec { out.fail(format!("inv_sound:{}", t), format!("returned {} has {}", r, r.get_lunar_hour().get_eight_char())); }
            if r.get_year() < a || r.get_year() > b + 1 { out.fail(format!("inv_range:{}", t), format!("returned {} outside {}..{}", r, a, b)); }
          }
          if !ts.iter().any(|r| !r.is_before(start) && r.is_before(end)) { out.fail(format!("inv_complete:{}:{}:{}", t, a, b), format!("{} in {}..{}: none of {} results in the double-hour", ec, a, b, ts.len())); }
        }
        None => out.fail(format!("inv:{}", t), "panic".into()),
      }
      if y <= lo + 5 { out.sample(format!("{} -> {} searched in {}..{}", t, ec, a, b)); }
    }
  }
}

// ---------------------------------------------------------------------------------------------
// C14 weeks
// ---------------------------------------------------------------------------------------------
fn c14_solar_weeks(lo: i64, hi: i64, out: &mut Out) {
  for y in lo..=hi {
    for m in 1..=12i64 {
      if (y == 1 && m == 1) || (y == 9999 && m == 12) { continue; }
      let sm = SolarMonth::from_ym(y as isize, m as usize);
      let len = sp::month_len(y, m);
      let n1 = sp::jdn(y, m, 1);
      let w1 = sp::weekday_of(n1);
      let n_last = n1 + len - 1;
      for start in 0..7i64 {
        out.evaluations += 1;
        let off = sp::emod(w1 - start, 7);
        let want_count = (off + len + 6) / 7;
        let cnt = sm.get_week_count(start as usize) as i64;
        if cnt != want_count { out.fail(format!("weekcount:{}-{}:{}", y, m, start), format!("{} want {}", cnt, want_count)); continue; }
        let weeks = match guard(|| sm.get_weeks(start as usize)) { Some(v) => v, None => { out.fail(format!("weeks:{}-{}:{}", y, m, start), "panic".into()); continue; } };
        let mut covered = 0i64;
        for (i, w) in weeks.iter().enumerate() {
          let r = guard(|| { let f = w.get_first_day(); (jdn_sd(&f), f.get_week().get_index() as i64, w.get_days().iter().map(|d| jdn_sd(d)).collect::<Vec<i64>>()) });
          match r {
            Some((f, wd, days)) => {
              if f != n1 - off + 7 * i as i64 || wd != start { out.fail(format!("weekfirst:{}-{}:{}:{}", y, m, start, i), format!("first day {} weekday {}", f, wd)); }
              if days.len() != 7 || days.iter().enumerate().any(|(j, &x)| x != f + j as i64) { out.fail(format!("weekdays:{}-{}:{}:{}", y, m, start, i), format!("{:?}", days)); }
              covered += (i64::min(f + 6, n_last) - i64::max(f, n1) + 1).max(0);
            }
            None => { if f_in_range(n1 - off + 7 * i as i64) { out.fail(format!("weekfirst:{}-{}:{}:{}", y, m, start, i), "panic".into()); } else { covered += 7; } }
          }
          // refused index one past the end
        }
        if covered < len { out.fail(format!("weekcover:{}-{}:{}", y, m, start), format!("covered {} of {}", covered, len)); }
        if guard(|| SolarWeek::new(y as isize, m as usize, cnt as usize, start as usize).is_ok()) != Some(false) { out.fail(format!("weekrefuse:{}-{}:{}", y, m, start), "index == count accepted".into()); }
      }
      // date -> week: EVERY existing date of the month x 7 week starts: the reported week contains the date, starts on the
      // chosen weekday and has the index the date's row has in the month
      for pos in 0..len {
        let sd = SolarDay::from_ymd(y as isize, m as usize, 1).next(pos as isize);
        for start in 0..7i64 {
          out.evaluations += 1;
          let off = sp::emod(w1 - start, 7);
          match guard(|| { let w = sd.get_solar_week(start as usize); (jdn_sd(&w.get_first_day()), w.get_index() as i64) }) {
            Some((f, idx)) => if !(f <= n1 + pos && n1 + pos < f + 7) || sp::weekday_of(f) != start || idx != (pos + off) / 7 { out.fail(format!("weekofdate:{}:{}", sd, start), format!("week index {} starting at day number {}", idx, f)); },
            None => if f_in_range(n1 + pos) { out.fail(format!("weekofdate:{}:{}", sd, start), "panic".into()) },
          }
        }
      }
      // stepping and index in year from three dates of the month
      for (pos, start) in [(0i64, 1usize), (len / 2, 0), (len - 1, 6), (len - 1, 1)] {
        out.evaluations += 1;
        let n = n1 + pos;
        let sd = SolarDay::from_ymd(y as isize, m as usize, 1).next(pos as isize);
        match guard(|| { let w = sd.get_solar_week(start); (jdn_sd(&w.get_first_day()), w.get_index(), w) }) {
          Some((f, _idx, w)) => {
            if !(f <= n && n < f + 7) || sp::weekday_of(f) != start as i64 { out.fail(format!("weekof:{}:{}", sd, start), format!("week starts {}", f)); }
            for nn in [1isize, -1, 5, -5, 53, -60, 60] {
              if !f_in_range(f + 7 * nn as i64 - 40) || !f_in_range(f + 7 * nn as i64 + 40) { continue; }
              out.evaluations += 1;
              match guard(|| jdn_sd(&w.next(nn).get_first_day())) {
                Some(g) => if g != f + 7 * nn as i64 { out.fail(format!("weekstep:{}:{}:{}", sd, start, nn), format!("first day moved by {}", g - f)); },
                None => out.fail(format!("weekstep:{}:{}:{}", sd, start, nn), "panic".into()),
              }
            }
            if y >= 2 {
              // index in year: weeks counted from the one containing January 1
              let j1 = sp::jdn(y, 1, 1);
              let first_week_start = j1 - sp::emod(sp::weekday_of(j1) - start as i64, 7);
              let want = (f - first_week_start) / 7;
              match guard(|| w.get_index_in_year() as i64) { Some(g) => if g != want { out.fail(format!("weekinyear:{}:{}", sd, start), format!("{} want {}", g, want)); }, None => out.fail(format!("weekinyear:{}:{}", sd, start), "panic".into()) }
            }
          }
          None => out.fail(format!("weekof:{}:{}", sd, start), "panic".into()),
        }
      }
    }
    if y == lo { out.sample(format!("civil year {}: 12 months x 7 week starts x all indices", y)); }
  }
}
fn f_in_range(n: i64) -> bool { n >= 1721424 + 7 && n <= 5373484 - 7 }

fn c14_lunar_weeks(lo: i64, hi: i64, out: &mut Out) {
  for y in lo..=hi {
    let y = y as isize;
    if y < 30 || y > 9990 || (y >= 236 && y <= 241) { continue; }
    for m in months_of(y) {
      let lm = LunarMonth::from_ym(y, m);
      let len = lm.get_day_count() as i64;
      let n1 = lm.get_first_julian_day().get_day() as i64;
      let w1 = sp::weekday_of(n1);
      for start in 0..7i64 {
        out.evaluations += 1;
        let off = sp::emod(w1 - start, 7);
        let want_count = (off + len + 6) / 7;
        let cnt = lm.get_week_count(start as usize) as i64;
        if cnt != want_count { out.fail(format!("lweekcount:{}:{}:{}", y, m, start), format!("{} want {}", cnt, want_count)); continue; }
        let weeks = match guard(|| lm.get_weeks(start as usize)) { Some(v) => v, None => { out.fail(format!("lweeks:{}:{}:{}", y, m, start), "panic".into()); continue; } };
        for (i, w) in weeks.iter().enumerate() {
          match guard(|| { let f = w.get_first_day(); (jdn_sd(&f.get_solar_day()), f.get_week().get_index() as i64, w.get_days().iter().map(|d| jdn_sd(&d.get_solar_day())).collect::<Vec<i64>>()) }) {
            Some((f, wd, days)) => {
              if f != n1 - off + 7 * i as i64 || wd != start { out.fail(format!("lweekfirst:{}:{}:{}:{}", y, m, start, i), format!("first day {} weekday {} want {}", f, wd, n1 - off + 7 * i as i64)); }
              if days.len() != 7 || days.iter().enumerate().any(|(j, &x)| x != f + j as i64) { out.fail(format!("lweekdays:{}:{}:{}:{}", y, m, start, i), format!("{:?}", days)); }
            }
            None => out.fail(format!("lweekfirst:{}:{}:{}:{}", y, m, start, i), "panic".into()),
          }
        }
        // stepping from the first week
        if start == (y as i64 + m as i64).rem_euclid(7) {
          let w0 = &weeks[0];
          let f0 = n1 - off;
          for nn in [1isize, -1, 4, 9, -9, 30, -30] {
            out.evaluations += 1;
            match guard(|| jdn_sd(&w0.next(nn).get_first_day().get_solar_day())) {
              Some(g) => if g != f0 + 7 * nn as i64 { out.fail(format!("lweekstep:{}:{}:{}:{}", y, m, start, nn), format!("first day moved by {}", g - f0)); },
              None => out.fail(format!("lweekstep:{}:{}:{}:{}", y, m, start, nn), "panic".into()),
            }
          }
        }
      }
    }
    if y as i64 == lo { out.sample(format!("lunar year {}: every month x 7 week starts x all indices", y)); }
  }
}

// ---------------------------------------------------------------------------------------------
// C15: Nines, Dog days, Plum rains, pentads, commanding stems: every civil date of years lo..=hi
// ---------------------------------------------------------------------------------------------
fn allot(jie_branch: i64) -> [(i64, i64); 3] {
  // (stem, days) per Jie month by month branch; -1 = no middle slot; the last slot takes the rest
  match jie_branch {
    2 => [(4, 7), (2, 7), (0, 99)], 3 => [(0, 10), (-1, 0), (1, 99)], 4 => [(1, 9), (9, 3), (4, 99)], 5 => [(4, 5), (6, 9), (2, 99)],
    6 => [(2, 10), (5, 9), (3, 99)], 7 => [(3, 9), (1, 3), (5, 99)], 8 => [(4, 10), (8, 3), (6, 99)], 9 => [(6, 10), (-1, 0), (7, 99)],
    10 => [(7, 9), (3, 3), (4, 99)], 11 => [(4, 7), (0, 5), (8, 99)], 0 => [(8, 10), (-1, 0), (9, 99)], _ => [(9, 9), (7, 3), (5, 99)],
  }
}

fn c15_series(lo: i64, hi: i64, out: &mut Out) {
  let (k0, td) = term_days(lo - 1, hi);
  let tdk = |k: i64| td[(k - k0) as usize];
  let mut kk: usize = 0;
  for y in lo..=hi {
    for (yy, m, d) in dates_of_year(y) {
      let n = sp::jdn(yy, m, d);
      while kk + 1 < td.len() && td[kk + 1] <= n { kk += 1; }
      let k = k0 + kk as i64;
      let sd = SolarDay::from_ymd(yy as isize, m as usize, d as usize);
      out.evaluations += 1;
      // Nines: 81 days from the winter-solstice day (term index 0)
      let ws = { let a = tdk(24 * (yy + 1)); if a <= n { a } else { tdk(24 * yy) } };
      let want_nine = if n >= ws && n - ws < 81 { Some(((n - ws) / 9, (n - ws) % 9)) } else { None };
      match guard(|| sd.get_nine_day().map(|x| (x.get_nine().get_index() as i64, x.get_day_index() as i64))) { Some(g) => if g != want_nine { out.fail(format!("nine:{}-{}-{}", yy, m, d), format!("{:?} want {:?}", g, want_nine)); }, None => out.fail(format!("nine:{}-{}-{}", yy, m, d), "panic".into()) }
      // Dog days
      let xz = tdk(24 * yy + 12);
      let g1 = xz + sp::emod(6 - stem_of(sp::pillar_of(xz)), 10);
      let s0 = g1 + 20;
      let lq = tdk(24 * yy + 15);
      let long_mid = lq > s0 + 20;
      let dd = n - s0;
      let want_dog = if dd < 0 { None } else if dd < 10 { Some((0, dd)) } else if dd < 20 { Some((1, dd - 10)) }
        else if long_mid { if dd < 30 { Some((1, dd - 10)) } else if dd < 40 { Some((2, dd - 30)) } else { None } }
        else { if dd < 30 { Some((2, dd - 20)) } else { None } };
      match guard(|| sd.get_dog_day().map(|x| (x.get_dog().get_index() as i64, x.get_day_index() as i64))) { Some(g) => if g != want_dog { out.fail(format!("dog:{}-{}-{}", yy, m, d), format!("{:?} want {:?}", g, want_dog)); }, None => out.fail(format!("dog:{}-{}-{}", yy, m, d), "panic".into()) }
      // Plum rains
      let mz = tdk(24 * yy + 11);
      let ps = mz + sp::emod(2 - stem_of(sp::pillar_of(mz)), 10);
      let xs = tdk(24 * yy + 13);
      let pe = xs + sp::emod(7 - branch_of(sp::pillar_of(xs)), 12);
      let want_plum = if n < ps || n > pe { None } else if n == pe { Some((1, 0)) } else { Some((0, n - ps)) };
      match guard(|| sd.get_plum_rain_day().map(|x| (x.get_plum_rain().get_index() as i64, x.get_day_index() as i64))) { Some(g) => if g != want_plum { out.fail(format!("plum:{}-{}-{}", yy, m, d), format!("{:?} want {:?}", g, want_plum)); }, None => out.fail(format!("plum:{}-{}-{}", yy, m, d), "panic".into()) }
      // pentads and commanding stems need the governing term
      if td[kk] > n { continue; }
      let di = n - td[kk];
      let pi = i64::min(di / 5, 2);
      let want_ph = (sp::emod(k, 24) * 3 + pi, di - 5 * pi);
      match guard(|| { let p = sd.get_phenology_day(); (p.get_phenology().get_index() as i64, p.get_day_index() as i64) }) { Some(g) => if g != want_ph { out.fail(format!("pentad:{}-{}-{}", yy, m, d), format!("{:?} want {:?}", g, want_ph)); }, None => out.fail(format!("pentad:{}-{}-{}", yy, m, d), "panic".into()) }
      let kj = if sp::emod(k, 2) == 1 { k } else { k - 1 };
      if kj < k0 { continue; }
      let off = n - tdk(kj);
      let mb = sp::emod(2 + sp::ediv(kj - 3, 2), 12);
      let a = allot(mb);
      let (mut acc, mut want_h) = (0i64, (0i64, 0i64, 0i64));
      for (slot, (stem, days)) in a.iter().enumerate() {
        if *stem < 0 { continue; }
        if off < acc + days { want_h = (*stem, slot as i64, off - acc); break; }
        acc += days;
      }
      match guard(|| { let h = sd.get_hide_heaven_stem_day(); (h.get_hide_heaven_stem().get_heaven_stem().get_index() as i64, match h.get_hide_heaven_stem().get_type() { HideHeavenStemType::RESIDUAL => 0, HideHeavenStemType::MIDDLE => 1, HideHeavenStemType::MAIN => 2 }, h.get_day_index() as i64) }) {
        Some(g) => if g != want_h { out.fail(format!("ruling:{}-{}-{}", yy, m, d), format!("{:?} want {:?} (day {} of the month of branch {})", g, want_h, off, mb)); },
        None => out.fail(format!("ruling:{}-{}-{}", yy, m, d), "panic".into()),
      }
    }
    if y == lo { out.sample(format!("civil year {}: five series for every date", y)); }
  }
}

// ---------------------------------------------------------------------------------------------
// C16 child limit and fortunes
// ---------------------------------------------------------------------------------------------
fn add_calendar(t: &SolarTime, ay: i64, am: i64, ad: i64, ah: i64, ami: i64) -> (i64, i64, i64, i64, i64, i64) {
  // birth + counts with the month-length carry described by the property (days overflow month by month)
  let mut mi = t.get_minute() as i64 + ami; let mut h = t.get_hour() as i64 + ah + mi / 60; mi %= 60;
  let mut d = t.get_day() as i64 + ad + h / 24; h %= 24;
  let mut mm = (t.get_year() as i64 + ay) * 12 + (t.get_month() as i64 - 1) + am;
  loop { let (yy, mo) = (mm / 12, mm % 12 + 1); let dc = sp::month_len(yy, mo); if d > dc { d -= dc; mm += 1; } else { break; } }
  (mm / 12, mm % 12 + 1, d, h, mi, t.get_second() as i64)
}

fn c16_child_limit(lo: i64, hi: i64, seed: u64, out: &mut Out) {
  let mut rng = seed ^ 0x1616 ^ ((lo as u64) << 10);
  for y in lo..=hi {
    if y < 2 || y > 9950 || (y >= 1570 && y <= 1582) { continue; } // a limit ending in October 1582 is a known finding (excluded)
    let dates = dates_of_year(y);
    let mut births: Vec<SolarTime> = vec![];
    for _ in 0..crate::mult(3, 20) { let (yy, m, d) = dates[(lcg(&mut rng) as usize) % dates.len()]; births.push(SolarTime::from_ymd_hms(yy as isize, m as usize, d as usize, (lcg(&mut rng) % 24) as usize, (lcg(&mut rng) % 60) as usize, (lcg(&mut rng) % 60) as usize)); }
    // near a Jie instant and on a month end
    let jie = SolarTerm::from_index(y as isize, (1 + 2 * (lcg(&mut rng) % 12)) as isize).get_julian_day().get_solar_time();
    births.push(jie.next(-30)); births.push(jie.next(30)); births.push(jie);
    let (yy, m, _) = dates[(lcg(&mut rng) as usize) % dates.len()];
    births.push(SolarTime::from_ymd_hms(yy as isize, m as usize, sp::std_len(yy, m) as usize, 23, 59, (lcg(&mut rng) % 60) as usize));
    for b in births {
      if b.get_year() as i64 != y { continue; }
      for gender in [Gender::MAN, Gender::WOMAN] {
        out.evaluations += 1;
        let r = guard(|| ChildLimit::from_solar_time(b, gender));
        let cl = match r { Some(v) => v, None => { out.fail(format!("limit:{}:{}", b, gender as usize), "panic".into()); continue; } };
        let ec = b.get_lunar_hour().get_eight_char();
        let yang = ec.get_year().get_heaven_stem().get_index() % 2 == 0;
        let fwd = (yang && gender == Gender::MAN) || (!yang && gender == Gender::WOMAN);
        if cl.is_forward() != fwd { out.fail(format!("direction:{}:{}", b, gender as usize), format!("{}", cl.is_forward())); }
        // governing Jie: next if forward, previous (the one starting the current month) if backward
        let mut t = b.get_term(); if !t.is_jie() { t = t.next(-1); } if fwd { t = t.next(2); }
        let jt = t.get_julian_day().get_solar_time();
        let secs = jt.subtract(b).abs() as i64;
        let (ay, r1) = (secs / 259200, secs % 259200); let (am, r2) = (r1 / 21600, r1 % 21600); let (ad, r3) = (r2 / 720, r2 % 720); let (ah, r4) = (r3 / 30, r3 % 30); let ami = r4 * 2;
        let got = (cl.get_year_count() as i64, cl.get_month_count() as i64, cl.get_day_count() as i64, cl.get_hour_count() as i64, cl.get_minute_count() as i64);
        if got != (ay, am, ad, ah, ami) { out.fail(format!("units:{}:{}", b, gender as usize), format!("{:?} want {:?} ({} s to {})", got, (ay, am, ad, ah, ami), secs, jt)); continue; }
        let e = cl.get_end_time();
        let want_end = add_calendar(&b, ay, am, ad, ah, ami);
        let got_end = (e.get_year() as i64, e.get_month() as i64, e.get_day() as i64, e.get_hour() as i64, e.get_minute() as i64, e.get_second() as i64);
        if got_end != want_end { out.fail(format!("end:{}:{}", b, gender as usize), format!("{:?} want {:?}", got_end, want_end)); }
        if e.is_before(b) || e.get_year() - b.get_year() > 11 || cl.get_start_time() != b { out.fail(format!("bounds:{}:{}", b, gender as usize), format!("end {}", e)); }
        // decade fortunes: month pillar +-1 per decade, start ages 10 apart; yearly fortunes: hour pillar +-1 per year
        let mp = ec.get_month().get_index() as i64; let hp = ec.get_hour().get_index() as i64; let sgn = if fwd { 1 } else { -1 };
        let d0 = cl.get_start_decade_fortune();
        let age0 = e.get_year() as i64 - b.get_year() as i64 + 1;
        for i in 0..3i64 {
          let di = d0.next(i as isize);
          if di.get_sixty_cycle().get_index() as i64 != sp::emod(mp + sgn * (i + 1), 60) || di.get_start_age() as i64 != age0 + 10 * i || di.get_end_age() as i64 != age0 + 10 * i + 9
             || di.get_start_sixty_cycle_year().get_year() as i64 != e.get_year() as i64 + 10 * i { out.fail(format!("decade:{}:{}:{}", b, gender as usize, i), format!("{} age {}", di.get_sixty_cycle(), di.get_start_age())); }
          let f = cl.get_start_fortune().next(i as isize);
          if f.get_age() as i64 != age0 + i || f.get_sixty_cycle().get_index() as i64 != sp::emod(hp + sgn * (age0 + i), 60) || f.get_sixty_cycle_year().get_year() as i64 != e.get_year() as i64 + i { out.fail(format!("fortune:{}:{}:{}", b, gender as usize, i), format!("{} age {}", f.get_sixty_cycle(), f.get_age())); }
        }
        // the other shipped strategies: unit conversion of each
        let mins = secs / 60;
        let c95 = China95ChildLimitProvider::new().get_info(b, t.clone());
        if (c95.get_year_count() as i64, c95.get_month_count() as i64, c95.get_day_count() as i64, c95.get_hour_count(), c95.get_minute_count()) != (mins / 4320, mins % 4320 / 360, mins % 360 / 12, 0, 0) { out.fail(format!("china95:{}:{}", b, gender as usize), "units".into()); }
        let s2 = LunarSect2ChildLimitProvider::new().get_info(b, t.clone());
        if (s2.get_year_count() as i64, s2.get_month_count() as i64, s2.get_day_count() as i64, s2.get_hour_count() as i64, s2.get_minute_count()) != (mins / 4320, mins % 4320 / 360, mins % 360 / 12, mins % 12 * 2, 0) { out.fail(format!("sect2:{}:{}", b, gender as usize), "units".into()); }
        for info in [c95, s2] {
          let we = add_calendar(&b, info.get_year_count() as i64, info.get_month_count() as i64, info.get_day_count() as i64, info.get_hour_count() as i64, info.get_minute_count() as i64);
          let ge = info.get_end_time();
          if (ge.get_year() as i64, ge.get_month() as i64, ge.get_day() as i64, ge.get_hour() as i64, ge.get_minute() as i64, ge.get_second() as i64) != we { out.fail(format!("end_other:{}:{}", b, gender as usize), format!("{}", ge)); }
        }
        if guard(|| LunarSect1ChildLimitProvider::new().get_info(b, t.clone()).get_end_time()).map(|e1| e1.is_before(b)) != Some(false) { out.fail(format!("sect1:{}:{}", b, gender as usize), "panic or end before birth".into()); }
      }
    }
    if y == lo { out.sample(format!("year {}: 7 births x 2 genders x 4 strategies", y)); }
  }
}

// ---------------------------------------------------------------------------------------------
// C17 daily series: every civil date of years lo..=hi
// ---------------------------------------------------------------------------------------------
fn c17_day_series(lo: i64, hi: i64, out: &mut Out) {
  use tyme4rs::tyme::culture::star::twenty_eight::TwentyEightStar;
  let (k0, td) = term_days(lo - 1, hi);
  let tdk = |k: i64| td[(k - k0) as usize];
  let mut kk: usize = 0;
  let mut prev: Option<(i64, i64, i64, i64)> = None; // (n, month pillar, duty, mansion)
  for y in lo..=hi {
    for (yy, m, d) in dates_of_year(y) {
      let n = sp::jdn(yy, m, d);
      while kk + 1 < td.len() && td[kk + 1] <= n { kk += 1; }
      if td[kk] > n { continue; }
      out.evaluations += 1;
      let k = k0 + kk as i64;
      let (_, _, mp) = ym_pillars(k);
      let (db, mb) = (branch_of(sp::pillar_of(n)), branch_of(mp));
      let sd = SolarDay::from_ymd(yy as isize, m as usize, d as usize);
      let r = guard(|| { let s = sd.get_sixty_cycle_day(); let l = sd.get_lunar_day();
        (s.get_duty().get_index() as i64, s.get_twelve_star().get_index() as i64, s.get_twenty_eight_star().get_index() as i64, l.get_duty().get_index() as i64, l.get_twelve_star().get_index() as i64,
         l.get_twenty_eight_star().get_index() as i64, l.get_six_star().get_index() as i64, l.get_month(), l.get_day() as i64, l.get_phase().get_index() as i64, l.get_minor_ren().get_index() as i64, s.get_nine_star().get_index() as i64, l.get_nine_star().get_index() as i64) });
      let (duty, twelve, mansion, lduty, ltwelve, lmansion, six, lm, ld, phase, ren, nine, lnine) = match r { Some(v) => v, None => { out.fail(format!("series:{}-{}-{}", yy, m, d), "panic".into()); prev = None; continue; } };
      if duty != sp::emod(db - mb, 12) || (duty == 0) != (db == mb) || lduty != duty { out.fail(format!("duty:{}-{}-{}", yy, m, d), format!("{} / {} want {}", duty, lduty, sp::emod(db - mb, 12))); }
      // twelve spirits: Azure Dragon at the branch fixed by the month branch (寅申子 卯酉寅 辰戌辰 巳亥午 子午申 丑未戌), then with the branch
      let start = sp::emod(mb - 2, 6) * 2;
      if twelve != sp::emod(db - start, 12) || ltwelve != twelve { out.fail(format!("twelve:{}-{}-{}", yy, m, d), format!("{} / {} want {}", twelve, ltwelve, sp::emod(db - start, 12))); }
      if sp::mansion_luminary(mansion) != sp::weekday_of(n) || lmansion != mansion { out.fail(format!("mansion:{}-{}-{}", yy, m, d), format!("mansion {} on weekday {}", mansion, sp::weekday_of(n))); }
      if six != sp::emod((lm as i64).abs() + ld - 2, 6) { out.fail(format!("sixstar:{}-{}-{}", yy, m, d), format!("{} for lunar {} {}", six, lm, ld)); }
      if phase != ld - 1 { out.fail(format!("phase:{}-{}-{}", yy, m, d), format!("{}", phase)); }
      if ren != sp::emod(((lm as i64).abs() - 1) % 6 + ld - 1, 6) { out.fail(format!("minorren:{}-{}-{}", yy, m, d), format!("{}", ren)); }
      // day nine star: solstice-turning rule. Forward from 一白 at the Jiazi day nearest the winter solstice,
      // backward from 九紫 at the Jiazi day nearest the summer solstice
      let near = |t: i64| { let p = sp::pillar_of(t); if p > 29 { t + 60 - p } else { t - p } };
      let (w0, s0, w1) = (near(tdk(24 * yy)), near(tdk(24 * yy + 12)), near(tdk(24 * (yy + 1))));
      let want_nine = if n >= w0 && n < s0 { sp::emod(n - w0, 9) } else if n >= s0 && n < w1 { sp::emod(8 - (n - s0), 9) } else if n >= w1 { sp::emod(n - w1, 9) } else { sp::emod(8 + (w0 - n), 9) };
      if nine != want_nine || lnine != nine { out.fail(format!("daynine:{}-{}-{}", yy, m, d), format!("{} / {} want {}", nine, lnine, want_nine)); }
      if let Some((pn, pmp, pduty, pman)) = prev {
        if pn + 1 == n {
          if pmp == mp && duty != sp::emod(pduty + 1, 12) { out.fail(format!("dutystep:{}-{}-{}", yy, m, d), format!("{} after {}", duty, pduty)); }
          if mansion != sp::emod(pman + 1, 28) { out.fail(format!("mansionstep:{}-{}-{}", yy, m, d), format!("{} after {}", mansion, pman)); }
        }
      }
      prev = Some((n, mp, duty, mansion));
      // all 24 hours of two days of each month (seed-rotated; the 1st and 15th for seed 0)
      let rot = crate::ROT.load(std::sync::atomic::Ordering::Relaxed) as i64;
      if !reform(yy) && (d == 1 + (rot % 13) || d == 15 + (rot % 13)) {   // reform years: day-level keys only (stable known findings)
        for h in 0..24usize {
          let t = SolarTime::from_ymd_hms(yy as isize, m as usize, d as usize, h, 30, 0);
          let hb = ((h as i64 + 1) / 2) % 12;
          // from 23:00 the day pillar used for the hour is the next day's
          let db = if h == 23 { (db + 1) % 12 } else { db };
          let r = guard(|| { let sh = t.get_sixty_cycle_hour(); let lh = t.get_lunar_hour(); (sh.get_twelve_star().get_index() as i64, lh.get_twelve_star().get_index() as i64, sh.get_nine_star().get_index() as i64, lh.get_nine_star().get_index() as i64) });
          if let Some((a, b, c, e)) = r {
            let hstart = sp::emod(db - 2, 6) * 2;
            if a != sp::emod(hb - hstart, 12) || a != b { out.fail(format!("hourtwelve:{}", t), format!("{} / {} want {}", a, b, sp::emod(hb - hstart, 12))); }
            let asc = n >= tdk(24 * yy) && n < tdk(24 * yy + 12);
            // hour star: start by the day-branch group, ascending between the winter and the summer solstice day. From
            // 23:00 the instant-level view uses the next day's pillar, the lunar-hour view the lunar day's own pillar
            // (the property is silent on 23:00 for this series; each view is checked against its own day pillar)
            let star = |b: i64| { let st = [8i64, 5, 2][(b % 3) as usize]; if asc { sp::emod(8 - st + hb, 9) } else { sp::emod(st - hb, 9) } };
            let db0 = branch_of(sp::pillar_of(n));
            if c != star(db) || e != star(db0) { out.fail(format!("hournine:{}", t), format!("{} / {} want {} / {}", c, e, star(db), star(db0))); }
          } else { out.fail(format!("hourseries:{}", t), "panic".into()); }
        }
      }
    }
    if y == lo { out.sample(format!("civil year {}: duty, twelve spirits, mansion, six-day star, phase, minor Ren, nine star of every date", y)); }
  }
}

// year / month nine stars and kitchen-god attributes for lunar years lo..=hi
fn c17_year_month_stars(lo: i64, hi: i64, out: &mut Out) {
  for y in lo..=hi {
    out.evaluations += 1;
    // year star: 1864 (上元甲子) is 一白, descending one per year
    let want = sp::emod(0 - (y - 1864), 9);
    let ly = LunarYear::from_year(y as isize);
    let got = ly.get_nine_star().get_index() as i64;
    let got2 = SixtyCycleYear::from_year(y as isize).get_nine_star().get_index() as i64;
    if got != want || got2 != want { out.fail(format!("yearnine:{}", y), format!("{} / {} want {}", got, got2, want)); }
    if y >= 0 && y <= 9999 {
      // month star: years of 子午卯酉 start the Yin month at 八白, 辰戌丑未 at 五黄, 寅申巳亥 at 二黑; descending per month
      let yb = branch_of(sp::emod(y - 4, 60));
      let first = match yb % 3 { 0 => 7, 1 => 4, _ => 1 };
      for (i, m) in months_of(y as isize).iter().enumerate() {
        out.evaluations += 1;
        let lm = LunarMonth::from_ym(y as isize, *m);
        let _ = i;
        if lm.get_index_in_year() as i64 != lm.get_month() as i64 - 1 { continue; } // after a leap month the lunar-month pillar is shifted by upstream design (deprecated view); the Jie-month view below is the rule
        let idx = lm.get_month() as i64 - 1;
        let want = sp::emod(first - idx, 9);
        let got = lm.get_nine_star().get_index() as i64;
        if got != want { out.fail(format!("monthnine:{}:{}", y, m), format!("{} want {}", got, want)); }
      }
      for i in 0..12i64 {
        out.evaluations += 1;
        let sm = SixtyCycleMonth::from_index(y as isize, i as isize);
        if sm.get_nine_star().get_index() as i64 != sp::emod(first - i, 9) { out.fail(format!("smonthnine:{}:{}", y, i), format!("{}", sm.get_nine_star().get_index())); }
      }
    }
  }
}

// ---------------------------------------------------------------------------------------------
// C18 tables: lo/hi unused except for the kitchen-god year range
// ---------------------------------------------------------------------------------------------
fn c18_tables(lo: i64, hi: i64, out: &mut Out) {
  if lo <= 0 {
    for mb in 0..12isize {
      // a month pillar with that branch: any stem of equal parity
      let mp = SixtyCycle::from_index(sp::pillar_index((mb % 2) as i64, mb as i64) as isize);
      for dp in 0..60isize {
        out.evaluations += 1;
        let day = SixtyCycle::from_index(dp);
        match guard(|| (God::get_day_gods(mp.clone(), day.clone()), Taboo::get_day_recommends(mp.clone(), day.clone()), Taboo::get_day_avoids(mp.clone(), day.clone()))) {
          Some((gods, rec, avo)) => {
            if gods.is_empty() { out.fail(format!("gods:{}:{}", mb, dp), "no spirit".into()); }
            if gods.iter().any(|g| g.get_index() >= 151) { out.fail(format!("gods:{}:{}", mb, dp), "index".into()); }
            if rec.iter().any(|t| avo.iter().any(|a| a.get_index() == t.get_index())) { out.fail(format!("taboo_overlap:{}:{}", mb, dp), "an activity is both recommended and avoided".into()); }
          }
          None => out.fail(format!("daytable:{}:{}", mb, dp), "panic (decode failure)".into()),
        }
        // hour table: day pillar dp x hour branch mb
        out.evaluations += 1;
        let hp = SixtyCycle::from_index(sp::pillar_index((mb % 2) as i64, mb as i64) as isize);
        match guard(|| (Taboo::get_hour_recommends(day.clone(), hp.clone()), Taboo::get_hour_avoids(day.clone(), hp.clone()))) {
          Some((rec, avo)) => if rec.iter().any(|t| avo.iter().any(|a| a.get_index() == t.get_index())) { out.fail(format!("hour_taboo_overlap:{}:{}", dp, mb), "both".into()); },
          None => out.fail(format!("hourtable:{}:{}", dp, mb), "panic (decode failure)".into()),
        }
      }
    }
    for g in 0..151isize {
      out.evaluations += 1;
      let luck = God::from_index(g).get_luck().get_index();
      if luck != if g < 60 { 0 } else { 1 } { out.fail(format!("godluck:{}", g), format!("{}", luck)); }
    }
    out.sample("720 (month branch, day pillar) + 720 (day pillar, hour branch) pairs, 151 spirits".to_string());
  }
  let numbers = ["一", "二", "三", "四", "五", "六", "七", "八", "九", "十", "十一", "十二"];
  for y in i64::max(lo, 0)..=hi {
    out.evaluations += 1;
    let r = guard(|| { let k = LunarYear::from_year(y as isize).get_kitchen_god_steed(); vec![k.get_mouse(), k.get_grass(), k.get_cattle(), k.get_flower(), k.get_dragon(), k.get_horse(), k.get_chicken(), k.get_silkworm(), k.get_pig(), k.get_field(), k.get_cake(), k.get_gold()] });
    match r {
      Some(v) => {
        let first = LunarMonth::from_ym(y as isize, 1).get_first_julian_day().get_day() as i64;
        let p = sp::pillar_of(first);
        // every attribute is "steps from the New Year's day pillar to a fixed stem/branch" + 1, in 1..12
        let eb = |t: i64| numbers[sp::emod(t - branch_of(p), 12) as usize];
        let hs = |t: i64| numbers[sp::emod(t - stem_of(p), 10) as usize];
        let want = vec![format!("{}鼠偷粮", eb(0)), format!("草子{}分", eb(0)), format!("{}牛耕田", eb(1)), format!("花收{}分", eb(3)), format!("{}龙治水", eb(4)), format!("{}马驮谷", eb(6)), format!("{}鸡抢米", eb(9)), format!("{}姑看蚕", eb(9)), format!("{}屠共猪", eb(11)), format!("甲田{}分", hs(0)), format!("{}人分饼", hs(2)), format!("{}日得金", hs(7))];
        if v != want { out.fail(format!("kitchen:{}", y), format!("{:?}", v)); }
      }
      None => out.fail(format!("kitchen:{}", y), "panic".into()),
    }
  }
}

// ---------------------------------------------------------------------------------------------
// C20 festivals: civil dates and lunar dates of years lo..=hi, by index and by date
// ---------------------------------------------------------------------------------------------
fn c20_festivals(lo: i64, hi: i64, out: &mut Out) {
  let solar: [(usize, usize, isize); 10] = [(1, 1, 1950), (3, 8, 1950), (3, 12, 1979), (5, 1, 1950), (5, 4, 1950), (6, 1, 1950), (7, 1, 1941), (8, 1, 1933), (9, 10, 1985), (10, 1, 1950)];
  for y in lo..=hi {
    let yi = y as isize;
    // every civil date: found exactly on its month-day from the founding year on
    if y >= 1900 && y <= 2100 {
      for (yy, m, d) in dates_of_year(y) {
        out.evaluations += 1;
        let want = solar.iter().position(|&(fm, fd, fy)| fm as i64 == m && fd as i64 == d && yi >= fy);
        match guard(|| SolarFestival::from_ymd(yy as isize, m as usize, d as usize).map(|f| (f.get_index(), f.get_day(), f.get_start_year()))) {
          Some(g) => { if g.map(|x| x.0) != want { out.fail(format!("solarfest:{}-{}-{}", yy, m, d), format!("{:?} want {:?}", g.map(|x| x.0), want)); }
                       if let Some((i, day, sy)) = g { if day != SolarDay::from_ymd(yy as isize, m as usize, d as usize) || sy != solar[i].2 { out.fail(format!("solarfestday:{}-{}-{}", yy, m, d), "fields".into()); } } }
          None => out.fail(format!("solarfest:{}-{}-{}", yy, m, d), "panic".into()),
        }
      }
    }
    for (i, &(fm, fd, fy)) in solar.iter().enumerate() {
      out.evaluations += 1;
      let g = guard(|| SolarFestival::from_index(yi, i).map(|f| (f.get_day().get_month(), f.get_day().get_day(), f.get_index())));
      let want = if yi >= fy { Some((fm, fd, i)) } else { None };
      if g != Some(want) { out.fail(format!("solarfest_index:{}:{}", y, i), format!("{:?}", g)); }
    }
    if guard(|| SolarFestival::from_index(yi, 10).is_none()) != Some(true) { out.fail(format!("solarfest_index:{}:10", y), "accepted".into()); }
    // stepping: n places further along the list, carrying into other years
    if y >= 1990 && y <= 9990 {
      for (i, n) in [(0usize, 1isize), (9, 1), (0, -1), (3, 10), (3, -10), (5, 27), (8, -13)] {
        out.evaluations += 1;
        let f = SolarFestival::from_index(yi, i).unwrap();
        let t = y * 10 + i as i64 + n as i64;
        let want = SolarFestival::from_index(sp::ediv(t, 10) as isize, sp::emod(t, 10) as usize);
        if guard(|| f.next(n)) != Some(want) { out.fail(format!("solarfest_step:{}:{}:{}", y, i, n), "wrong".into()); }
      }
    }
    if y < 1 || y > 9998 { continue; }
    // lunar festivals by index: fall on a day whose own lookup returns it (or the earlier-listed one sharing the day)
    let fixed: [(isize, usize); 13] = [(1, 1), (1, 15), (2, 2), (3, 3), (0, 0), (5, 5), (7, 7), (7, 15), (8, 15), (9, 9), (0, 0), (12, 8), (0, 0)];
    let mut days: Vec<(usize, LunarDay)> = vec![];
    for i in 0..13usize {
      out.evaluations += 1;
      match guard(|| LunarFestival::from_index(yi, i)) {
        Some(Some(f)) => {
          let d = f.get_day();
          if f.get_index() != i { out.fail(format!("lunarfest_index:{}:{}", y, i), "index".into()); }
          if fixed[i].0 != 0 && (d.get_year() != yi || d.get_month() != fixed[i].0 || d.get_day() != fixed[i].1) { out.fail(format!("lunarfest_fixed:{}:{}", y, i), format!("{}", d)); }
          if i == 4 || i == 10 {
            let k = if i == 4 { 7 } else { 24 };
            let td = SolarTerm::from_index(yi, k).get_julian_day().get_solar_day();
            if guard(|| d.get_solar_day()) != Some(td) { out.fail(format!("lunarfest_term:{}:{}", y, i), format!("{}", d)); }
          }
          if i == 12 {
            // New Year's Eve: the last day of the lunar year (day 29 or 30), the day before (y+1, 1, 1)
            let ny = LunarDay::from_ymd(yi + 1, 1, 1);
            let lm = d.get_lunar_month();
            if guard(|| jdn_sd(&d.get_solar_day()) + 1 == jdn_sd(&ny.get_solar_day())) != Some(true) || d.get_day() != lm.get_day_count() || d.get_day() < 29 || d.get_year() != yi { out.fail(format!("lunarfest_eve:{}", y), format!("{}", d)); }
          }
          days.push((i, d));
        }
        r => out.fail(format!("lunarfest_index:{}:{}", y, i), format!("{:?}", r.map(|x| x.is_some()))),
      }
    }
    for (i, d) in days.iter() {
      out.evaluations += 1;
      let earliest = days.iter().filter(|(_, e)| e == d).map(|(j, _)| *j).min().unwrap();
      match guard(|| d.get_festival().map(|f| f.get_index())) {
        Some(Some(g)) => if g != earliest { out.fail(format!("lunarfest_bydate:{}:{}", y, i), format!("lookup on {} gives {} want {}", d, g, earliest)); },
        Some(None) => out.fail(format!("lunarfest_bydate:{}:{}", y, i), format!("lookup on {} finds nothing", d)),
        None => out.fail(format!("lunarfest_bydate:{}:{}", y, i), "panic".into()),
      }
    }
    // every lunar date of the year (1900..2100): a festival is reported only on a festival day
    if y >= 1900 && y <= 2100 {
      for m in months_of(yi) {
        let lm = LunarMonth::from_ym(yi, m);
        for d in 1..=lm.get_day_count() {
          out.evaluations += 1;
          let ld = LunarDay::from_ymd(yi, m, d);
          let want = days.iter().filter(|(_, e)| *e == ld).map(|(j, _)| *j).min();
          match guard(|| ld.get_festival().map(|f| f.get_index())) { Some(g) => if g != want { out.fail(format!("lunarfest_day:{}:{}:{}", y, m, d), format!("{:?} want {:?}", g, want)); }, None => out.fail(format!("lunarfest_day:{}:{}:{}", y, m, d), "panic".into()) }
        }
      }
    }
    if y >= 30 && y <= 9990 {
      for (i, n) in [(0usize, 13isize), (0, -3), (12, 1), (4, -5), (10, 27), (7, -40)] {
        out.evaluations += 1;
        let f = LunarFestival::from_index(yi, i).unwrap();
        let t = y * 13 + i as i64 + n as i64;
        let want = LunarFestival::from_index(sp::ediv(t, 13) as isize, sp::emod(t, 13) as usize);
        if guard(|| f.next(n)) != Some(want) { out.fail(format!("lunarfest_step:{}:{}:{}", y, i, n), "wrong".into()); }
      }
    }
    if y == lo { out.sample(format!("year {}: civil + lunar festivals by index, by date, stepping", y)); }
  }
}

// legal holidays: walk the table by stepping from the first record; membership for every date 2000..2030
fn c20_holidays(lo: i64, hi: i64, out: &mut Out) {
  // first record: 2001-12-29 (found by scanning forward from 2000-01-01)
  let mut first: Option<LegalHoliday> = None;
  let mut members: Vec<(i64, bool, usize)> = vec![];
  for y in 2000..=2030i64 {
    for (yy, m, d) in dates_of_year(y) {
      out.evaluations += 1;
      match guard(|| LegalHoliday::from_ymd(yy as isize, m as usize, d as usize)) {
        Some(Some(h)) => { if h.get_day() != SolarDay::from_ymd(yy as isize, m as usize, d as usize) { out.fail(format!("holiday_day:{}-{}-{}", yy, m, d), format!("{}", h)); }
                            if first.is_none() { first = Some(h); } members.push((sp::jdn(yy, m, d), h.is_work(), 0)); }
        Some(None) => {},
        None => out.fail(format!("holiday:{}-{}-{}", yy, m, d), "panic".into()),
      }
    }
  }
  // stepping visits exactly the members, in strictly increasing date order
  if let Some(f) = first {
    let mut cur = Some(f);
    let mut i = 0usize;
    while let Some(h) = cur {
      out.evaluations += 1;
      let n = jdn_sd(&h.get_day());
      if i >= members.len() || members[i].0 != n { out.fail(format!("holiday_walk:{}", h.get_day()), format!("step {} reaches {} but member #{} is day number {:?}", i, h.get_day(), i, members.get(i).map(|x| x.0))); break; }
      if i > 0 && members[i - 1].0 >= n { out.fail(format!("holiday_order:{}", h.get_day()), "not increasing".into()); }
      // next(k) lands k records further along the table, next(-k) k records back: every record x k in 1..=60, 100, 200
      for k in (1isize..=60).chain([100isize, 200].into_iter()) {
        if ((i % 16) as i64) < lo || ((i % 16) as i64) > hi { break; }   // records are split over 16 processes by index mod 16
        out.evaluations += 1;
        if i + (k as usize) < members.len() {
          match guard(|| h.next(k).map(|x| jdn_sd(&x.get_day()))) { Some(Some(g)) => if g != members[i + k as usize].0 { out.fail(format!("holiday_step:{}:{}", h.get_day(), k), format!("lands on day number {} instead of record #{}", g, i + k as usize)); }, r => out.fail(format!("holiday_step:{}:{}", h.get_day(), k), format!("{:?}", r)) }
        }
        if i >= k as usize { match guard(|| h.next(-k).map(|x| jdn_sd(&x.get_day()))) { Some(Some(g)) => if g != members[i - k as usize].0 { out.fail(format!("holiday_stepback:{}:{}", h.get_day(), k), format!("{}", g)); }, r => out.fail(format!("holiday_stepback:{}:{}", h.get_day(), k), format!("{:?}", r)) } }
      }
      cur = match guard(|| h.next(1)) { Some(v) => v, None => { out.fail(format!("holiday_walk:{}", h.get_day()), "panic".into()); None } };
      i += 1;
    }
    if i != members.len() { out.fail("holiday_walk:end".into(), format!("stepping visited {} records, membership found {}", i, members.len())); }
  } else { out.fail("holiday_first".into(), "no record found".into()); }
  out.sample(format!("{} holiday records between 2000 and 2030, walked by next(1)", members.len()));
}

// ---------------------------------------------------------------------------------------------
// C10 history independence. Each leaf process is a fresh process (cold cache).
// ---------------------------------------------------------------------------------------------
fn month_sig(y: isize, m: isize) -> Option<(isize, isize, usize, usize, u64)> {
  guard(|| { let v = LunarMonth::from_ym(y, m); (v.get_year(), v.get_month_with_leap(), v.get_day_count(), v.get_index_in_year(), v.get_first_julian_day().get_day().to_bits()) })
}
fn month_ref(y: isize, m: isize) -> Option<(isize, isize, usize, usize, u64)> {
  guard(|| LunarMonth::new(y, m)).and_then(|r| r.ok()).map(|v| (v.get_year(), v.get_month_with_leap(), v.get_day_count(), v.get_index_in_year(), v.get_first_julian_day().get_day().to_bits()))
}

// all orders of requests whose concatenated digits coincide + long pseudo-random histories, compared with
// the cache-free constructor
fn c10_history(lo: i64, hi: i64, seed: u64, out: &mut Out) {
  let mut rng = seed ^ 0x1010 ^ ((lo as u64) << 8);
  // digit-collision families: (y, m) and (y', m') with str(y)+str(m) == str(y')+str(m'), in both orders
  for y in lo..=hi {
    let y = y as isize;
    if y < 1 || y > 999 { continue; }
    for m in [1isize, 2, 10, 11, 12] {
      let s = format!("{}{}", y, m);
      for cut in 1..s.len() {
        let (a, b) = s.split_at(cut);
        if b.starts_with('0') { continue; }
        if let (Ok(y2), Ok(m2)) = (a.parse::<isize>(), b.parse::<isize>()) {
          if (y2, m2) == (y, m) || m2 < 1 || m2 > 12 || y2 > 9999 { continue; }
          for order in 0..2 {
            out.evaluations += 1;
            let (p, q) = if order == 0 { ((y, m), (y2, m2)) } else { ((y2, m2), (y, m)) };
            let _ = month_sig(p.0, p.1);
            if month_sig(q.0, q.1) != month_ref(q.0, q.1) { out.fail(format!("collision:{}:{}~{}:{}", p.0, p.1, q.0, q.1), format!("after ({},{}) the month ({},{}) comes back as {:?}", p.0, p.1, q.0, q.1, month_sig(q.0, q.1))); }
          }
        }
      }
    }
  }
  // neighbouring-key families around every leap month, in both orders
  for y in lo..=hi {
    for yy in [y as isize, y as isize + 1000, y as isize + 3000, y as isize + 5000, y as isize + 8000] {
      if yy < 1 || yy > 9998 { continue; }
      let l = LunarYear::from_year(yy).get_leap_month() as isize;
      if l == 0 { continue; }
      for (p, q) in [((yy, l), (yy, -l)), ((yy - 1, 12), (yy, -l)), ((yy, -l), (yy + 1, 1)), ((yy, -l), (yy, if l < 12 { l + 1 } else { 12 })), ((yy - 1, l), (yy, -l))] {
        for order in 0..2 {
          out.evaluations += 1;
          let (a, b) = if order == 0 { (p, q) } else { (q, p) };
          let _ = month_sig(a.0, a.1);
          if month_sig(b.0, b.1) != month_ref(b.0, b.1) { out.fail(format!("neighbour:{}:{}~{}:{}", a.0, a.1, b.0, b.1), format!("after ({},{}) the month ({},{}) comes back as {:?}", a.0, a.1, b.0, b.1, month_sig(b.0, b.1))); }
        }
      }
    }
  }
  // long histories: random months incl. leap months, each answer == cold answer
  for _ in 0..((hi - lo + 1) * crate::mult(40, 400) as i64) {
    out.evaluations += 1;
    let y = (lcg(&mut rng) % 10000) as isize;
    let leap = LunarYear::from_year(y).get_leap_month() as isize;
    let m = if leap > 0 && lcg(&mut rng) % 4 == 0 { -leap } else { (lcg(&mut rng) % 12 + 1) as isize };
    if month_sig(y, m) != month_ref(y, m) { out.fail(format!("history:{}:{}", y, m), "differs from the cache-free constructor".into()); }
    // per-value memos: asking twice / after cloning / after stepping gives the same civil date and pillars
    if y >= 2 && y <= 9990 && lcg(&mut rng) % 8 == 0 {
      let h = LunarHour::from_ymd_hms(y, m, 1 + (lcg(&mut rng) % 29) as usize, (lcg(&mut rng) % 24) as usize, 0, 0);
      let fresh = |x: &LunarHour| { let z = LunarHour::from_ymd_hms(x.get_year(), x.get_month(), x.get_day(), x.get_hour(), x.get_minute(), x.get_second()); (z.get_solar_time(), z.get_sixty_cycle_hour().to_string(), z.get_eight_char().to_string()) };
      let _ = (h.get_solar_time(), h.get_sixty_cycle_hour(), h.get_lunar_day().get_solar_day(), h.get_lunar_day().get_sixty_cycle_day());
      for n in [1isize, -1, 5] {
        let r = h.next(n);
        let got = (r.get_solar_time(), r.get_sixty_cycle_hour().to_string(), r.get_eight_char().to_string());
        if got != fresh(&r) { out.fail(format!("memo:{}:{}:{}", y, m, n), format!("stepped value answers {:?}", got.0)); }
      }
      let c = h.clone();
      if (c.get_solar_time(), c.get_sixty_cycle_hour().to_string(), c.get_eight_char().to_string()) != fresh(&h) { out.fail(format!("memo_clone:{}:{}", y, m), "clone".into()); }
      let d = h.get_lunar_day();
      let dn = d.next(3);
      let dz = LunarDay::from_ymd(dn.get_year(), dn.get_month(), dn.get_day());
      if dn.get_solar_day() != dz.get_solar_day() || dn.get_sixty_cycle_day() != dz.get_sixty_cycle_day() { out.fail(format!("memo_day:{}:{}", y, m), "stepped lunar day".into()); }
    }
  }
  out.sample(format!("digit-collision pairs in both orders for years {}..{}; {} random requests", lo, hi, (hi - lo + 1) * 40));
}

// 16 threads issuing overlapping queries: every answer equals the cache-free constructor's
fn c10_threads(lo: i64, hi: i64, seed: u64, out: &mut Out) {
  use std::sync::{Arc, Mutex};
  let fails: Arc<Mutex<Vec<(String, String)>>> = Arc::new(Mutex::new(vec![]));
  let count = Arc::new(std::sync::atomic::AtomicU64::new(0));
  let mut hs = vec![];
  for t in 0..16u64 {
    let fails = fails.clone(); let count = count.clone();
    hs.push(std::thread::spawn(move || {
      let mut rng = seed ^ 0xfeed ^ (t / 2);            // pairs of threads share a request sequence
      for _ in 0..((hi - lo + 1) * 20) {
        let y = (lo + (lcg(&mut rng) % ((hi - lo + 1) as u64)) as i64) as isize;
        let m = (lcg(&mut rng) % 12 + 1) as isize;
        count.fetch_add(1, std::sync::atomic::Ordering::Relaxed);
        if month_sig(y, m) != month_ref(y, m) { fails.lock().unwrap().push((format!("threads:{}:{}", y, m), "differs".into())); }
        let sd = SolarDay::from_ymd(i64::max(2, y as i64) as isize, m as usize, 1 + (lcg(&mut rng) % 28) as usize);
        let a = guard(|| sd.get_lunar_day().get_solar_day());
        if a != Some(sd) { fails.lock().unwrap().push((format!("threads_rt:{}", sd), format!("{:?}", a.map(|x| x.to_string())))); }
      }
    }));
  }
  for h in hs { if h.join().is_err() { out.fail("threads:join".into(), "a worker thread panicked".into()); } }
  out.evaluations += count.load(std::sync::atomic::Ordering::Relaxed);
  for (k, d) in fails.lock().unwrap().iter().take(50) { out.fail(k.clone(), d.clone()); }
  out.sample(format!("16 threads x {} overlapping requests", (hi - lo + 1) * 20));
}

// every position at which an invalid request can be injected: after it, valid requests still answer
fn c10_refusals(lo: i64, hi: i64, out: &mut Out) {
  let bad: Vec<Box<dyn Fn()>> = vec![
    Box::new(|| { let _ = LunarMonth::from_ym(2023, 13); }), Box::new(|| { let _ = LunarMonth::from_ym(2023, 0); }), Box::new(|| { let _ = LunarMonth::from_ym(2023, -3); }),
    Box::new(|| { let _ = LunarMonth::from_ym(10000, 1); }), Box::new(|| { let _ = LunarMonth::from_ym(-2, 1); }), Box::new(|| { let _ = LunarDay::from_ymd(2023, 1, 31); }),
    Box::new(|| { let _ = LunarDay::from_ymd(2023, 1, 0); }), Box::new(|| { let _ = SolarDay::from_ymd(2023, 2, 30); }), Box::new(|| { let _ = SolarDay::from_ymd(1582, 10, 10); }),
    Box::new(|| { let _ = SolarDay::from_ymd(0, 1, 1); }), Box::new(|| { let _ = SolarTime::from_ymd_hms(2023, 1, 1, 24, 0, 0); }), Box::new(|| { let _ = LunarHour::from_ymd_hms(2023, 1, 1, 0, 60, 0); }),
    Box::new(|| { let _ = LunarWeek::from_ym(2023, 1, 6, 0); }), Box::new(|| { let _ = SolarWeek::from_ym(2023, 1, 0, 7); }), Box::new(|| { let _ = HeavenStem::from_name("x"); }),
    Box::new(|| { let _ = LunarYear::from_year(10000); }), Box::new(|| { let _ = SixtyCycleYear::from_year(-2); }), Box::new(|| { let _ = EightChar::new("甲子", "乙丑", "x", "甲子"); }),
    // requests that fail INSIDE a strategy object's critical section: a lunar hour whose civil date lies in year 10000, a birth
    // whose governing Jie lies beyond the supported range
    Box::new(|| { let _ = LunarHour::from_ymd_hms(9999, 12, 3, 0, 0, 0).get_eight_char(); }),
    Box::new(|| { let _ = ChildLimit::from_solar_time(SolarTime::from_ymd_hms(9999, 12, 30, 12, 0, 0), Gender::MAN); }),
    Box::new(|| { let _ = ChildLimit::from_solar_time(SolarTime::from_ymd_hms(9999, 12, 30, 12, 0, 0), Gender::WOMAN); }),
  ];
  for (i, b) in bad.iter().enumerate() {
    if (i as i64) < lo || (i as i64) > hi { continue; }
    for pos in 0..3 {
      out.evaluations += 1;
      // a few valid requests before the bad one, then the bad one, then valid requests that must still answer
      for k in 0..pos { let _ = month_sig(2000 + k, 1 + k); }
      let refused = catch_unwind(AssertUnwindSafe(|| b())).is_err();
      if !refused { out.fail(format!("refusal_accepted:{}", i), "invalid request was accepted".into()); }
      let ok = month_sig(2023, 1) == month_ref(2023, 1) && month_sig(2023, -2) == month_ref(2023, -2) && month_sig(1999 + pos, 5) == month_ref(1999 + pos, 5)
        && guard(|| SolarDay::from_ymd(2023, 5, 1).get_lunar_day().get_solar_day()) == Some(SolarDay::from_ymd(2023, 5, 1))
        && guard(|| SolarTime::from_ymd_hms(2023, 5, 1, 10, 0, 0).get_lunar_hour().get_eight_char().to_string()).is_some()
        && guard(|| ChildLimit::from_solar_time(SolarTime::from_ymd_hms(2023, 5, 1, 10, 0, 0), Gender::MAN).get_end_time().to_string()).is_some();
      if !ok { out.fail(format!("refusal:{}:{}", i, pos), "a valid request after the refused one fails or differs".into()); }
    }
  }
  out.sample("21 kinds of refused request x 3 positions in a history".to_string());
}

// ---------------------------------------------------------------------------------------------
// C04: month numbers and the leap month follow the no-major-term rule, against the library's own new-moon
// days and calendar-making term days, lunar years lo..=hi
// ---------------------------------------------------------------------------------------------
fn c04_leap_rule(lo: i64, hi: i64, out: &mut Out) {
  for y in lo..=hi {
    if y < 27 || y > 9998 || (y >= 237 && y <= 240) { continue; }
    let yi = y as isize;
    out.evaluations += 1;
    // winter solstices (calendar-making term days) that open and close the "sui" containing most of lunar year y
    let ws0 = SolarTerm::from_index(yi, 0).get_cursory_julian_day();          // Dec of y-1
    let ws1 = SolarTerm::from_index(yi + 1, 0).get_cursory_julian_day();      // Dec of y
    // new-moon days: starting from the new moon on or before ws0
    let mut w = ShouXingUtil::calc_shuo(ws0);
    if w > ws0 { w -= 29.53; }
    let mut nm: Vec<f64> = vec![];
    for i in 0..16 { nm.push(ShouXingUtil::calc_shuo(w + 29.5306 * i as f64)); }
    // the rule, evaluated by the Verus-verified checker of spec/leaprule.rs on integral day numbers
    let nmi: Vec<i64> = nm.iter().map(|x| *x as i64).collect();
    let zq: Vec<f64> = (0..=13).map(|j| SolarTerm::from_index(yi, 2 * j).get_cursory_julian_day()).collect();
    let zqi: Vec<i64> = zq.iter().map(|x| *x as i64).collect();
    if nm.iter().any(|x| x.fract() != 0.0) || zq.iter().any(|x| x.fract() != 0.0) || ws1.fract() != 0.0 { out.fail(format!("integral:{}", y), "new-moon / term day is not an integral day number".into()); continue; }
    let lastl = sp::last_lunation(&nmi, ws1 as i64);
    if lastl < 0 { out.fail(format!("solstice_month:{}", y), "no lunation contains the next winter solstice".into()); continue; }
    let last = lastl as usize;
    let lp = sp::leap_position(&nmi, &zqi, lastl);
    let leap_pos: Option<usize> = if lp >= 0 { Some(lp as usize) } else { None };
    let mut num: Vec<(i64, bool)> = vec![];   // (month number, leap) for lunations 0..=last
    let mut cur = 11i64;
    for i in 0..=last {
      if i == 0 { num.push((11, false)); continue; }
      if Some(i) == leap_pos { num.push((cur, true)); } else { cur = cur % 12 + 1; num.push((cur, false)); }
    }
    if num[last] != (11, false) { out.fail(format!("solstice_month:{}", y), format!("the lunation containing the next winter solstice would be month {:?}", num[last])); }
    // compare with the library's months of lunar year y that fall inside this sui (month 1 .. month 11)
    let lib_leap = LunarYear::from_year(yi).get_leap_month() as i64;
    for i in 0..=last {
      let (mn, lp) = num[i];
      // months 11/12 before month 1 belong to lunar year y-1; after that to y
      let passed_new_year = num[..=i].iter().any(|&(m, l)| m == 1 && !l);
      let ly = if passed_new_year { yi } else { yi - 1 };
      let mm = if lp { -mn } else { mn } as isize;
      match guard(|| LunarMonth::new(ly, mm)) {
        Some(Ok(v)) => { if v.get_first_julian_day().get_day() - 2451545.0 != nm[i] { out.fail(format!("rule_month:{}:{}", ly, mm), format!("library starts it at {} but the rule's lunation starts at {}", v.get_first_julian_day().get_day() - 2451545.0, nm[i])); } }
        _ => out.fail(format!("rule_month:{}:{}", ly, mm), format!("the rule needs month {} of {} but the library refuses it (table leap month of {}: {})", mm, ly, y, lib_leap)),
      }
    }
    if y == lo { out.sample(format!("sui of {}: {} lunations, leap position {:?}, table leap {}", y, last + 1, leap_pos, lib_leap)); }
  }
}


// C18: the day- and hour-level views return exactly the table entries of their (month pillar, day pillar) resp. (day pillar
// used for the hour - the next day's from 23:00 -, hour pillar): 60 consecutive days x 24 hours starting at year lo..hi, Jan 1 + 17*year
fn c18_views(lo: i64, hi: i64, out: &mut Out) {
  let idx = |v: &Vec<Taboo>| v.iter().map(|t| t.get_index()).collect::<Vec<usize>>();
  for y in lo..=hi {
    let base = SolarDay::from_ymd(y as isize, 1 + (y % 12) as usize, 1);
    for i in 0..60isize {
      let sd = base.next(i);
      out.evaluations += 1;
      let r = guard(|| {
        let scd = sd.get_sixty_cycle_day(); let ld = sd.get_lunar_day();
        let (mp, dp) = (scd.get_month(), scd.get_sixty_cycle());
        let want_g: Vec<usize> = God::get_day_gods(mp.clone(), dp.clone()).iter().map(|g| g.get_index()).collect();
        let gg = |v: Vec<God>| v.iter().map(|g| g.get_index()).collect::<Vec<usize>>();
        (gg(scd.get_gods()) == want_g && gg(ld.get_gods()) == want_g && !want_g.is_empty(),
         idx(&scd.get_recommends()) == idx(&Taboo::get_day_recommends(mp.clone(), dp.clone())) && idx(&ld.get_recommends()) == idx(&Taboo::get_day_recommends(mp.clone(), dp.clone())),
         idx(&scd.get_avoids()) == idx(&Taboo::get_day_avoids(mp.clone(), dp.clone())) && idx(&ld.get_avoids()) == idx(&Taboo::get_day_avoids(mp.clone(), dp.clone())))
      });
      match r { Some((true, true, true)) => {}, Some(v) => out.fail(format!("dayview:{}", sd), format!("gods/recommends/avoids agree with the table: {:?}", v)), None => out.fail(format!("dayview:{}", sd), "panic".into()) }
      for h in 0..24usize {
        out.evaluations += 1;
        let t = SolarTime::from_ymd_hms(sd.get_year(), sd.get_month(), sd.get_day(), h, 30, 0);
        let r = guard(|| {
          let sh = t.get_sixty_cycle_hour(); let lh = t.get_lunar_hour();
          let (dp, hp) = (sh.get_day(), sh.get_sixty_cycle());
          let (wr, wa) = (idx(&Taboo::get_hour_recommends(dp.clone(), hp.clone())), idx(&Taboo::get_hour_avoids(dp.clone(), hp.clone())));
          let disjoint = !wr.iter().any(|x| wa.contains(x));
          (idx(&sh.get_recommends()) == wr && idx(&lh.get_recommends()) == wr, idx(&sh.get_avoids()) == wa && idx(&lh.get_avoids()) == wa, disjoint,
           !idx(&lh.get_recommends()).iter().any(|x| idx(&lh.get_avoids()).contains(x)))
        });
        match r { Some((true, true, true, true)) => {}, Some(v) => out.fail(format!("hourview:{}", t), format!("recommends / avoids agree with the table and are disjoint: {:?}", v)), None => out.fail(format!("hourview:{}", t), "panic".into()) }
      }
    }
    if y == lo { out.sample(format!("60 days from {} x 24 hours", base)); }
  }
}
