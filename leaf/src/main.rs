// Leaf-contract conformance runner (class L). Executes the REAL crate (path dependency on the scratch
// copy of /repo's working tree) against the registry's leaf contracts over a sub-range of the domain.
// usage: verif_leaf <check> <lo> <hi> <seed> <tier>     -> last stdout line is one JSON object
mod spec;
mod checks;
mod checks2;

use std::panic;

pub static THOROUGH: std::sync::atomic::AtomicBool = std::sync::atomic::AtomicBool::new(false);
/// sample multiplier: the thorough tier draws k times as many seed-driven cases
pub fn mult(quick: usize, thorough: usize) -> usize { if THOROUGH.load(std::sync::atomic::Ordering::Relaxed) { thorough } else { quick } }

/// seed-derived rotation for checks that pick a few positions out of many
pub static ROT: std::sync::atomic::AtomicUsize = std::sync::atomic::AtomicUsize::new(0);

pub struct Out {
  pub evaluations: u64,
  pub distinct: u64,
  pub failures: Vec<(String, String)>,
  pub samples: Vec<String>,
}

impl Out {
  pub fn fail(&mut self, key: String, detail: String) {
    if self.failures.len() < 20000 { self.failures.push((key, detail)); }
  }
  pub fn sample(&mut self, s: String) { if self.samples.len() < 3 { self.samples.push(s); } }
}

fn esc(s: &str) -> String {
  let mut o = String::new();
  for c in s.chars() {
    match c {
      '"' => o.push_str("\\\""), '\\' => o.push_str("\\\\"), '\n' => o.push_str("\\n"),
      c if (c as u32) < 0x20 => o.push(' '),
      c => o.push(c),
    }
  }
  o
}

fn main() {
  let a: Vec<String> = std::env::args().collect();
  if a.len() < 6 { eprintln!("usage: verif_leaf <check> <lo> <hi> <seed> <tier>"); std::process::exit(2); }
  let (check, lo, hi, seed, tier) = (a[1].as_str(), a[2].parse::<i64>().unwrap(), a[3].parse::<i64>().unwrap(), a[4].parse::<u64>().unwrap(), a[5].as_str());
  if std::env::var("VERIF_LEAF_TRACE").is_err() { panic::set_hook(Box::new(|_| {})); }
  ROT.store(seed as usize % 31, std::sync::atomic::Ordering::Relaxed);
  THOROUGH.store(tier == "thorough", std::sync::atomic::Ordering::Relaxed);
  let mut out = Out { evaluations: 0, distinct: 0, failures: vec![], samples: vec![] };
  let known = checks::dispatch(check, lo, hi, seed, tier == "thorough", &mut out) || checks2::dispatch2(check, lo, hi, seed, tier == "thorough", &mut out);
  if !known { eprintln!("unknown check {}", check); std::process::exit(2); }
  let fails: Vec<String> = out.failures.iter().map(|(k, d)| format!("{{\"key\":\"{}\",\"detail\":\"{}\"}}", esc(k), esc(d))).collect();
  let samples: Vec<String> = out.samples.iter().map(|s| format!("\"{}\"", esc(s))).collect();
  println!("{{\"status\":\"{}\",\"evaluations\":{},\"distinct\":{},\"failures\":[{}],\"samples\":[{}]}}",
    if fails.is_empty() { "SUCCESS" } else { "FAILED" }, out.evaluations, if out.distinct > 0 { out.distinct } else { out.evaluations }, fails.join(","), samples.join(","));
}
