#!/usr/bin/env python3
"""setup_cmd: build nothing that depends on /repo; just warm the shared target dirs so the first
check does not pay for compiling regex & co. Safe to skip: every check rebuilds what it needs."""
import os, sys, subprocess
HERE = os.path.dirname(os.path.abspath(__file__))
sys.path.insert(0, HERE)
os.makedirs('/verif/.cache', exist_ok=True)
try:
    import weave, leaf_run
    s = weave.make_scratch('setup')
    b, err = leaf_run.build(s)
    print('leaf runner build:', 'ok' if b else 'FAILED ' + err[-300:])
except Exception as e:  # never fail setup
    print('setup warm-up skipped:', e)
print('setup done')
