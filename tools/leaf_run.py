"""Build and run the leaf-contract conformance runner (class L: bounded / exhaustive execution).

The runner is a cargo binary with a path dependency on the scratch copy of /repo's working tree.
Each leaf check is run as separate PROCESSES over disjoint sub-ranges (fresh process = cold cache;
a poisoned cache mutex cannot leak into another range)."""
import json
import os
import shutil
import subprocess
import time
from concurrent.futures import ThreadPoolExecutor

VERIF = os.path.dirname(os.path.dirname(os.path.abspath(__file__)))
TARGET_DIR = os.environ.get('VERIF_LEAF_TARGET') or '/verif/.cache/leaf-target'

_built = {}


def build(scratch):
    if scratch in _built:
        return _built[scratch]
    d = os.path.join(scratch, 'verif_leaf')
    if os.path.exists(d):
        shutil.rmtree(d)
    shutil.copytree(os.path.join(VERIF, 'leaf', 'src'), os.path.join(d, 'src'))
    toml = open(os.path.join(VERIF, 'leaf', 'Cargo.toml.in')).read().replace('@REPO@', scratch)
    open(os.path.join(d, 'Cargo.toml'), 'w').write(toml)
    # spec library (plain form) for the runner
    import specgen
    sd = os.path.join(VERIF, 'spec')
    parts = ['#![allow(dead_code, unused_parens, unused_variables)]\n']
    for f in sorted(os.listdir(sd)):
        if f.endswith('.rs') and not f.endswith('_v.rs'):
            parts.append(specgen.plain(open(os.path.join(sd, f), encoding='utf-8').read()))
    open(os.path.join(d, 'src', 'spec.rs'), 'w', encoding='utf-8').write('\n'.join(parts))
    lock = os.path.join(scratch, 'Cargo.lock')
    os.makedirs(TARGET_DIR, exist_ok=True)
    env = dict(os.environ)
    env['CARGO_NET_OFFLINE'] = 'true'
    env['RUSTFLAGS'] = env.get('RUSTFLAGS', '') + ' -Awarnings'
    p = subprocess.run(['cargo', 'build', '--release', '--offline', '--target-dir', TARGET_DIR],
                       cwd=d, env=env, stdout=subprocess.PIPE, stderr=subprocess.STDOUT, text=True)
    if p.returncode != 0:
        _built[scratch] = (None, p.stdout[-3000:])
    else:
        # copy the binary out of the shared target dir so a concurrent build cannot replace it under us
        b = os.path.join(d, 'verif_leaf.bin')
        shutil.copy(os.path.join(TARGET_DIR, 'release', 'verif_leaf'), b)
        _built[scratch] = (b, '')
    return _built[scratch]


def _one(binpath, check, lo, hi, seed, tier, timeout):
    t0 = time.time()
    try:
        p = subprocess.run([binpath, check, str(lo), str(hi), str(seed), tier], stdout=subprocess.PIPE, stderr=subprocess.PIPE,
                           timeout=timeout, text=True, errors='replace')
    except subprocess.TimeoutExpired:
        return {'status': 'UNDECIDED', 'reason': 'leaf run timeout %s [%s,%s]' % (check, lo, hi)}
    last = None
    for line in p.stdout.split('\n'):
        if line.startswith('{'):
            last = line
    if last is None and p.returncode == 101:
        # a Rust panic that escaped the check's own guards: the library panicked on an input of this sub-range that the check
        # does not expect to panic (on the unchanged tree no leaf process panics). Reported as a failure of this sub-range -
        # the input is not known, only the panic message; other exit codes (signals, out of memory) stay undecided.
        msg = [l for l in p.stderr.split('\n') if 'panicked at' in l or l.strip()][-6:]
        return {'status': 'FAILED', 'evaluations': 0, 'distinct': 0, 'samples': [], 'wall_s': time.time() - t0,
                'failures': [{'key': 'panic-outside-guard:%s:%s-%s' % (check, lo, hi), 'detail': ' | '.join(msg)[-500:]}]}
    if last is None:
        return {'status': 'UNDECIDED', 'reason': 'leaf runner %s [%s,%s] gave no result (rc=%d): %s' % (check, lo, hi, p.returncode, p.stderr[-600:])}
    r = json.loads(last)
    r['wall_s'] = time.time() - t0
    return r


def run(scratch, lspecs, tier, seed, jobs=16):
    binpath, err = build(scratch)
    out = []
    if binpath is None:
        for l in lspecs:
            out.append({'id': l['id'], 'status': 'UNDECIDED', 'reason': 'leaf runner does not build against the current tree: ' + err[-800:]})
        return out
    tasks = []
    for l in lspecs:
        if l.get('thorough_only') and tier != 'thorough':
            continue
        lo, hi = l['range']
        n = l.get('chunks', 16)
        total = hi - lo + 1
        n = max(1, min(n, total))
        for i in range(n):
            a = lo + total * i // n
            b = lo + total * (i + 1) // n - 1
            tasks.append((l, a, b))
    with ThreadPoolExecutor(max_workers=jobs) as ex:
        futs = [(l, a, b, ex.submit(_one, binpath, l['check'], a, b, seed, tier, l.get('timeout', 1200))) for l, a, b in tasks]
        by = {}
        for l, a, b, f in futs:
            by.setdefault(l['id'], (l, []))[1].append(f.result())
    for lid, (l, rs) in by.items():
        agg = {'id': lid, 'clause': l.get('clause'), 'domain': l.get('domain'), 'status': 'SUCCESS', 'evaluations': 0, 'distinct': 0,
               'failures': [], 'samples': [], 'exhaustive': l.get('exhaustive', False), 'wall_s': 0.0}
        for r in rs:
            if r.get('status') == 'UNDECIDED':
                agg['status'] = 'UNDECIDED'
                agg['reason'] = r.get('reason')
                continue
            agg['evaluations'] += r.get('evaluations', 0)
            agg['distinct'] += r.get('distinct', r.get('evaluations', 0))
            agg['failures'] += r.get('failures', [])
            agg['samples'] += r.get('samples', [])[:1]
            agg['wall_s'] = max(agg['wall_s'], r.get('wall_s', 0))
        if agg['failures'] and agg['status'] != 'UNDECIDED':
            agg['status'] = 'FAILED'
        out.append(agg)
    return out
