"""Run Kani harnesses on a woven scratch copy and parse per-harness results."""
import os
import re
import subprocess
import time

KANI_FLAGS = ['-Z', 'function-contracts', '-Z', 'stubbing', '-Z', 'unstable-options']
TARGET_DIR = os.environ.get('VERIF_KANI_TARGET') or '/verif/.cache/kani-target'


class KaniError(Exception):
    pass


def _env():
    e = dict(os.environ)
    e['CARGO_NET_OFFLINE'] = 'true'
    return e


def list_harnesses(scratch):
    """All `fn <name>` preceded by a kani::proof attribute in the expanded harness modules."""
    res = {}
    vk = os.path.join(scratch, 'verif_k')
    import json
    modmap = json.load(open(os.path.join(vk, 'modules.json')))
    for f in sorted(os.listdir(vk)):
        if not f.startswith('k_'):
            continue
        text = open(os.path.join(vk, f), encoding='utf-8').read()
        mod = modmap[f]
        for m in re.finditer(r'#\[kani::proof(?:_for_contract\([^)]*\))?\]\s*(?:#\[[^\]]*\]\s*)*fn\s+(\w+)\s*\(', text):
            res[m.group(1)] = '%s::verif_k::%s' % (mod, m.group(1))
    return res


MODULE_OF = {
    'k_jd.rs': 'tyme::jd',
    'k_solar.rs': 'tyme::solar',
    'k_lunar.rs': 'tyme::lunar',
    'k_sixtycycle.rs': 'tyme::sixtycycle',
    'k_mod.rs': 'tyme',
    'k_culture.rs': 'tyme::culture',
    'k_eightchar.rs': 'tyme::eightchar',
    'k_provider.rs': 'tyme::eightchar::provider',
    'k_festival.rs': 'tyme::festival',
    'k_holiday.rs': 'tyme::holiday',
    'k_util.rs': 'tyme::util',
    'k_nine.rs': 'tyme::culture::star::nine',
    'k_fetus.rs': 'tyme::culture::fetus',
}


def run(scratch, full_names, jobs=16, harness_timeout='10m', wall_timeout=3600, log_path=None):
    """Run the given fully-qualified harnesses in one cargo-kani invocation.
    Returns dict full_name -> result dict."""
    if not full_names:
        return {}
    os.makedirs(TARGET_DIR, exist_ok=True)
    cmd = ['cargo', 'kani'] + KANI_FLAGS + ['--harness-timeout', harness_timeout, '--exact',
                                            '--target-dir', TARGET_DIR, '-j', str(jobs), '--output-format', 'terse']
    for h in full_names:
        cmd += ['--harness', h]
    t0 = time.time()
    try:
        p = subprocess.run(cmd, cwd=scratch, env=_env(), stdout=subprocess.PIPE, stderr=subprocess.STDOUT,
                           timeout=wall_timeout, text=True, errors='replace')
        out = p.stdout
        rc = p.returncode
    except subprocess.TimeoutExpired as e:
        out = (e.stdout or b'').decode('utf-8', 'replace') if isinstance(e.stdout, bytes) else (e.stdout or '')
        rc = -9
    wall = time.time() - t0
    if log_path:
        open(log_path, 'w', encoding='utf-8').write(out)
    results = parse(out)
    for h in full_names:
        if h not in results:
            results[h] = {'status': 'UNDECIDED', 'reason': 'no result block (rc=%s)' % rc, 'time': None,
                          'failed_checks': [], 'cover': None, 'stub': False}
    if 'error: could not compile' in out or 'error[E' in out:
        errs = [l for l in out.split('\n') if l.startswith('error')][:5]
        for h in full_names:
            results[h]['status'] = 'UNDECIDED'
            results[h]['reason'] = 'compile error: ' + ' | '.join(errs)
    return {'results': results, 'wall': wall, 'rc': rc, 'cmd': ' '.join(cmd[:12]) + ' ... (%d harnesses)' % len(full_names), 'raw': out}


def parse(out):
    results = {}
    cur_by_thread = {}
    lines = out.split('\n')
    i = 0
    single = None
    block_owner = None
    block = []

    def finish(owner, blk):
        text = '\n'.join(blk)
        st = 'UNDECIDED'
        m = re.search(r'VERIFICATION:- (SUCCESSFUL|FAILED)', text)
        if m:
            st = 'SUCCESS' if m.group(1) == 'SUCCESSFUL' else 'FAILED'
        tm = re.search(r'Verification Time: ([0-9.]+)s', text)
        failed = []
        for fm in re.finditer(r'Failed Checks: (.*?)\n File: "([^"]*)", line (\d+), in (\S+)', text, re.S):
            failed.append({'desc': ' '.join(fm.group(1).split()), 'file': fm.group(2), 'line': int(fm.group(3)), 'in': fm.group(4)})
        cov = None
        cm = re.search(r'\*\* (\d+) of (\d+) cover properties satisfied', text)
        if cm:
            cov = (int(cm.group(1)), int(cm.group(2)))
        r = results.setdefault(owner, {})
        r.pop('reason', None)
        r.update({'status': st, 'time': float(tm.group(1)) if tm else None, 'failed_checks': failed, 'cover': cov})
        if st == 'FAILED' and not failed:
            r['status'] = 'UNDECIDED'
            r['reason'] = 'FAILED without a failed check (timeout / out of memory / unsupported construct)'
        if 'CBMC timed out' in text or 'timed out' in text.lower():
            r['status'] = 'UNDECIDED'
            r['reason'] = 'solver timeout'
        if re.search(r'unwinding assertion|recursion unwinding', text) and st == 'FAILED' and all('unwinding' in f['desc'] for f in failed):
            r['status'] = 'UNDECIDED'
            r['reason'] = 'unwinding bound too small'

    while i < len(lines):
        line = lines[i]
        m = re.match(r'(?:Thread (\d+): )?Checking harness (\S+?)\.\.\.', line)
        if m:
            th = m.group(1)
            name = m.group(2)
            if th is None:
                single = name
            else:
                cur_by_thread[th] = name
            results.setdefault(name, {'status': 'UNDECIDED', 'reason': 'started, no verdict', 'time': None,
                                      'failed_checks': [], 'cover': None, 'stub': False})
            i += 1
            continue
        m = re.match(r'(?:Thread (\d+): )?\s*- Stub: (.*)', line)
        if m:
            owner = cur_by_thread.get(m.group(1)) if m.group(1) is not None else single
            if owner and 'fmt :: format' in m.group(2).replace('::', ' :: ').replace('  ', ' '):
                results[owner]['stub'] = True
            elif owner and 'format' in m.group(2):
                results[owner]['stub'] = True
            i += 1
            continue
        m = re.match(r'Thread (\d+):\s*$', line)
        if m and i + 1 < len(lines) and lines[i + 1].startswith('VERIFICATION RESULT'):
            owner = cur_by_thread.get(m.group(1))
            blk = []
            i += 1
            while i < len(lines):
                blk.append(lines[i])
                if lines[i].startswith('Verification Time:'):
                    break
                i += 1
            if owner:
                finish(owner, blk)
            i += 1
            continue
        if line.startswith('VERIFICATION RESULT') and single:
            blk = []
            while i < len(lines):
                blk.append(lines[i])
                if lines[i].startswith('Verification Time:'):
                    break
                i += 1
            finish(single, blk)
            i += 1
            continue
        i += 1
    # cross-check with Kani's own summary
    m = re.search(r'Complete - (\d+) successfully verified harnesses, (\d+) failures, (\d+) total', out)
    if m:
        ok = sum(1 for r in results.values() if r.get('status') == 'SUCCESS')
        if ok != int(m.group(1)):
            for r in results.values():
                r['summary_mismatch'] = True
    return results


def playback(scratch, full_name, wall_timeout=1800):
    """Re-run one failing harness with concrete playback; return dict with the generated test and values."""
    os.makedirs(TARGET_DIR, exist_ok=True)
    cmd = ['cargo', 'kani'] + KANI_FLAGS + ['-Z', 'concrete-playback', '--concrete-playback=print', '--exact',
                                            '--target-dir', TARGET_DIR, '--harness', full_name, '--output-format', 'terse']
    try:
        p = subprocess.run(cmd, cwd=scratch, env=_env(), stdout=subprocess.PIPE, stderr=subprocess.STDOUT,
                           timeout=wall_timeout, text=True, errors='replace')
    except subprocess.TimeoutExpired:
        return None
    out = p.stdout
    m = re.search(r'```\n(.*?)```', out, re.S)
    if not m:
        return None
    test = m.group(1)
    vals = re.findall(r'//\s*(.+)\n\s*vec!\[([0-9, ]*)\]', test)
    return {'test': test, 'values': [{'value': v.strip(), 'bytes': b.strip()} for v, b in vals]}
