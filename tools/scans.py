"""Structural obligations checked mechanically on the current source (class S)."""
import os
import re

import rsscan

CLAUSES = {
    'cache_scan': 'LUNAR_MONTH_CACHE is touched only inside LunarMonth::from_ym; its key separates year and month; no fallible call (unwrap / expect / new / panic / ?) runs while a cache guard is alive',
}


def cache_scan(scratch):
    root = os.path.join(scratch, 'src')
    uses = []
    for dp, _, fs in os.walk(root):
        for f in fs:
            if f.endswith('.rs'):
                p = os.path.join(dp, f)
                txt = open(p, encoding='utf-8').read()
                if 'LUNAR_MONTH_CACHE' in txt:
                    uses.append(p)
    if not uses:
        return 'UNDECIDED', 'LUNAR_MONTH_CACHE not found (memo refactored?)'
    if [os.path.relpath(u, scratch) for u in uses] != ['src/tyme/lunar.rs']:
        return 'FAILED', 'LUNAR_MONTH_CACHE is referenced outside src/tyme/lunar.rs: %s' % uses
    src = rsscan.load(uses[0])
    try:
        fn = src.find_fn('impl LunarMonth', 'from_ym')
    except rsscan.ScanError as e:
        return 'UNDECIDED', str(e)
    toks = src.toks
    # every reference outside the lazy_static definition must lie inside from_ym
    for k, t in enumerate(toks):
        if t.kind == 'id' and t.text == 'LUNAR_MONTH_CACHE':
            inside = fn.toks_lo <= k < fn.toks_hi
            in_def = any(it.kind == 'macro' and it.toks_lo <= k < it.toks_hi for it in src.items)
            if not inside and not in_def:
                return 'FAILED', 'LUNAR_MONTH_CACHE referenced outside LunarMonth::from_ym at offset %d' % t.start
    body = src.text[toks[fn.body_open_k].start:fn.end]
    m = re.search(r'let\s+key\s*(?::\s*[\w<>]+)?\s*=\s*([^;]*);', body)
    if not m:
        return 'UNDECIDED', 'cache key expression not recognised'
    key = m.group(1)
    km = re.match(r'format!\(\s*"([^"]*)"\s*,\s*year\s*,\s*month\s*\)', key.strip())
    if km:
        fmt = km.group(1)
        parts = fmt.split('{}')
        if len(parts) != 3 or parts[1] == '' or re.search(r'[0-9-]', parts[1]):
            return 'FAILED', 'cache key %s does not separate year and month: distinct (year, month) pairs can share a key' % key.strip()
    elif re.search(r'\(\s*year\s*,\s*month\s*\)', key):
        pass  # tuple key: injective
    else:
        return 'UNDECIDED', 'cache key %r is not a recognised encoding of (year, month); injectivity undecided (the history run still compares every answer with the cache-free constructor)' % key.strip()
    # guard scopes: from each `.lock()` to the end of the innermost enclosing block
    lo, hi = fn.body_open_k, fn.toks_hi - 1
    for k in range(lo, hi):
        if toks[k].kind == 'id' and toks[k].text == 'lock' and toks[k - 1].text == '.':
            # innermost enclosing '{'
            depth = 0
            open_k = None
            for j in range(k, lo - 1, -1):
                if toks[j].text == '}':
                    depth += 1
                elif toks[j].text == '{':
                    if depth == 0:
                        open_k = j
                        break
                    depth -= 1
            close_k = rsscan.match_close(toks, open_k)
            # skip to the end of the lock statement
            j = k
            while toks[j].text != ';':
                j += 1
            for q in range(j + 1, close_k):
                t = toks[q]
                if (t.kind == 'id' and t.text in ('unwrap', 'expect', 'panic', 'unreachable', 'assert') ) or (t.kind == 'punct' and t.text == '?') \
                        or (t.kind == 'id' and t.text == 'new' and toks[q - 1].text == ':' and toks[q - 3].text in ('Self', 'LunarMonth')):
                    return 'FAILED', 'fallible call `%s` at offset %d runs while the cache lock taken at offset %d is held: a refused request would poison the mutex' % (t.text, t.start, toks[k].start)
    return 'SUCCESS', ''
