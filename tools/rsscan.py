"""Minimal brace-aware Rust scanner used by weave.py and extract.py.

It tokenizes Rust source well enough to skip comments, string/char literals and
lifetimes, and locates items (impl blocks, fns, structs, statics) and loop
headers by *item path and ordinal*, never by line number.

Anything it cannot delimit raises ScanError; callers turn that into exit 2
(infrastructure / lost anchor), never into a violation.
"""
import re


class ScanError(Exception):
    pass


IDENT_RE = re.compile(r'[A-Za-z_][A-Za-z0-9_]*')
NUM_RE = re.compile(r'[0-9][0-9a-zA-Z_]*(\.[0-9][0-9a-zA-Z_]*)?([eE][+-]?[0-9_]+)?[a-z0-9]*')


class Tok:
    __slots__ = ('kind', 'text', 'start', 'end')

    def __init__(self, kind, text, start, end):
        self.kind = kind      # 'id', 'num', 'str', 'char', 'life', 'punct', 'comment', 'doc'
        self.text = text
        self.start = start
        self.end = end

    def __repr__(self):
        return 'Tok(%s,%r,%d)' % (self.kind, self.text, self.start)


def lex(src, keep_comments=False):
    toks = []
    i = 0
    n = len(src)
    while i < n:
        c = src[i]
        if c.isspace():
            i += 1
            continue
        if src.startswith('//', i):
            j = src.find('\n', i)
            if j < 0:
                j = n
            if keep_comments:
                kind = 'doc' if (src.startswith('///', i) or src.startswith('//!', i)) else 'comment'
                toks.append(Tok(kind, src[i:j], i, j))
            i = j
            continue
        if src.startswith('/*', i):
            depth = 1
            j = i + 2
            while j < n and depth > 0:
                if src.startswith('/*', j):
                    depth += 1
                    j += 2
                elif src.startswith('*/', j):
                    depth -= 1
                    j += 2
                else:
                    j += 1
            if depth != 0:
                raise ScanError('unterminated block comment at %d' % i)
            if keep_comments:
                toks.append(Tok('comment', src[i:j], i, j))
            i = j
            continue
        # raw strings r"..." r#"..."# br#...
        m = re.match(r'b?r(#*)"', src[i:i + 40])
        if m:
            hashes = m.group(1)
            endpat = '"' + hashes
            j = src.find(endpat, i + len(m.group(0)))
            if j < 0:
                raise ScanError('unterminated raw string at %d' % i)
            j += len(endpat)
            toks.append(Tok('str', src[i:j], i, j))
            i = j
            continue
        if c == '"' or (c == 'b' and i + 1 < n and src[i + 1] == '"'):
            j = i + (2 if c == 'b' else 1)
            while j < n:
                if src[j] == '\\':
                    j += 2
                    continue
                if src[j] == '"':
                    break
                j += 1
            if j >= n:
                raise ScanError('unterminated string at %d' % i)
            j += 1
            toks.append(Tok('str', src[i:j], i, j))
            i = j
            continue
        if c == "'":
            # char literal or lifetime
            m = re.match(r"'(\\.[^']*|[^\\'])'", src[i:i + 16], re.S)
            if m:
                j = i + len(m.group(0))
                toks.append(Tok('char', src[i:j], i, j))
                i = j
                continue
            m = re.match(r"'[A-Za-z_][A-Za-z0-9_]*", src[i:i + 64])
            if m:
                j = i + len(m.group(0))
                toks.append(Tok('life', src[i:j], i, j))
                i = j
                continue
            raise ScanError('stray quote at %d' % i)
        m = IDENT_RE.match(src, i)
        if m:
            toks.append(Tok('id', m.group(0), i, m.end()))
            i = m.end()
            continue
        if c.isdigit():
            m = NUM_RE.match(src, i)
            j = m.end()
            # do not swallow a range operator or method call: "1..13", "1.max(2)"
            txt = m.group(0)
            if '.' in txt:
                dot = txt.index('.')
                after = txt[dot + 1:dot + 2]
                if not after.isdigit():
                    j = i + dot
            toks.append(Tok('num', src[i:j], i, j))
            i = j
            continue
        toks.append(Tok('punct', c, i, i + 1))
        i += 1
    return toks


OPEN = {'(': ')', '[': ']', '{': '}'}
CLOSE = {')', ']', '}'}


def match_close(toks, k):
    """toks[k] is an opening bracket; return index of its matching close."""
    stack = []
    for j in range(k, len(toks)):
        t = toks[j]
        if t.kind != 'punct':
            continue
        if t.text in OPEN:
            stack.append(OPEN[t.text])
        elif t.text in CLOSE:
            if not stack or stack[-1] != t.text:
                raise ScanError('bracket mismatch at %d' % t.start)
            stack.pop()
            if not stack:
                return j
    raise ScanError('unclosed bracket at %d' % toks[k].start)


def _skip_generics(toks, k):
    """toks[k] is '<' ; return index after matching '>' (naive, handles nesting and '->' )."""
    depth = 0
    j = k
    while j < len(toks):
        t = toks[j]
        if t.kind == 'punct':
            if t.text == '<':
                depth += 1
            elif t.text == '>' and not (j > 0 and toks[j - 1].kind == 'punct' and toks[j - 1].text == '-' and toks[j - 1].end == t.start):
                depth -= 1
                if depth == 0:
                    return j + 1
            elif t.text in OPEN:
                j = match_close(toks, j)
        j += 1
    raise ScanError('unclosed generics')


class Item:
    def __init__(self, kind, name, header, start, body_open, end, toks_lo, toks_hi, parent=None):
        self.kind = kind            # 'impl' | 'fn' | 'struct' | 'static' | 'mod' | 'trait' | 'enum'
        self.name = name
        self.header = header        # normalized header text, e.g. "impl Tyme for SolarDay"
        self.start = start          # char offset of first token of the item incl. attributes/visibility
        self.body_open = body_open  # char offset of '{' (or None)
        self.end = end              # char offset one past the closing '}' or ';'
        self.toks_lo = toks_lo
        self.toks_hi = toks_hi      # token index one past the end
        self.parent = parent
        self.children = []


def _norm(s):
    return re.sub(r'\s+', ' ', s).strip()


ITEM_KW = {'fn', 'struct', 'impl', 'static', 'const', 'mod', 'trait', 'enum', 'use', 'type', 'macro_rules'}
QUALS = {'pub', 'unsafe', 'async', 'extern', 'default'}


class Source:
    def __init__(self, text, path='<mem>'):
        self.text = text
        self.path = path
        self.toks = lex(text)
        self.items = []
        self._parse_block(0, len(self.toks), None, self.items)

    # -- item parsing -------------------------------------------------
    def _parse_block(self, lo, hi, parent, out):
        toks = self.toks
        k = lo
        while k < hi:
            start_k = k
            # attributes
            while k < hi and toks[k].kind == 'punct' and toks[k].text == '#':
                j = k + 1
                if j < hi and toks[j].text == '!':
                    j += 1
                if j < hi and toks[j].text == '[':
                    k = match_close(toks, j) + 1
                else:
                    break
            # qualifiers
            q = k
            while q < hi and toks[q].kind == 'id' and toks[q].text in QUALS:
                q += 1
                if q < hi and toks[q].text == '(' and toks[q - 1].text == 'pub':
                    q = match_close(toks, q) + 1
                if q < hi and toks[q].kind == 'str' and toks[q - 1].text == 'extern':
                    q += 1
            if q >= hi:
                break
            t = toks[q]
            if t.kind == 'id' and t.text in ITEM_KW and not (t.text == 'const' and q + 1 < hi and toks[q + 1].text == 'fn' and False):
                kw = t.text
                if kw == 'const' and q + 1 < hi and toks[q + 1].text == 'fn':
                    q += 1
                    kw = 'fn'
                k = self._parse_item(kw, start_k, q, hi, parent, out)
                continue
            # macro invocation at item level, e.g. lazy_static! { ... }
            if t.kind == 'id' and q + 1 < hi and toks[q + 1].text == '!':
                j = q + 2
                if j < hi and toks[j].kind == 'id':
                    j += 1
                if j < hi and toks[j].text in OPEN:
                    e = match_close(toks, j)
                    end_k = e + 1
                    if end_k < hi and toks[end_k].text == ';':
                        end_k += 1
                    it = Item('macro', t.text, t.text + '!', toks[start_k].start, toks[j].start, toks[end_k - 1].end, start_k, end_k, parent)
                    out.append(it)
                    k = end_k
                    continue
            raise ScanError('%s: cannot delimit item at offset %d (%r)' % (self.path, t.start, self.text[t.start:t.start + 40]))

    def _parse_item(self, kw, start_k, q, hi, parent, out):
        toks = self.toks
        # find end: first top-level '{' (then matching '}') or ';'
        j = q + 1
        name = None
        if kw in ('fn', 'struct', 'static', 'const', 'mod', 'trait', 'enum', 'type', 'macro_rules'):
            jj = j
            if kw == 'static' and toks[jj].text == 'mut':
                jj += 1
            if kw == 'macro_rules':
                jj += 1
            if toks[jj].kind == 'id':
                name = toks[jj].text
        body_open_k = None
        while j < hi:
            t = toks[j]
            if t.kind == 'punct':
                if t.text == ';':
                    end_k = j + 1
                    break
                if t.text == '{':
                    body_open_k = j
                    e = match_close(toks, j)
                    end_k = e + 1
                    if kw in ('static', 'const', 'use', 'type'):
                        # brace belongs to an initializer / use-group; keep scanning to ';'
                        j = e + 1
                        body_open_k = None
                        continue
                    break
                if t.text in ('(', '['):
                    j = match_close(toks, j) + 1
                    continue
                if t.text == '=' and kw in ('static', 'const', 'type'):
                    pass
            j += 1
        else:
            raise ScanError('%s: unterminated item %s' % (self.path, kw))
        header_end = toks[body_open_k].start if body_open_k is not None else toks[end_k - 1].start
        header = _norm(self.text[toks[q].start:header_end])
        it = Item(kw, name, header, toks[start_k].start,
                  toks[body_open_k].start if body_open_k is not None else None,
                  toks[end_k - 1].end, start_k, end_k, parent)
        it.kw_tok = q
        it.body_open_k = body_open_k
        out.append(it)
        if kw in ('impl', 'mod', 'trait') and body_open_k is not None:
            if kw == 'impl':
                it.name = header
            self._parse_block(body_open_k + 1, end_k - 1, it, it.children)
        return end_k

    # -- lookup --------------------------------------------------------
    def find_impl(self, header):
        """header like 'impl SolarDay' or 'impl Tyme for SolarDay' (whitespace-insensitive)."""
        want = _norm(header)
        hits = [it for it in self.all_items() if it.kind == 'impl' and it.header == want]
        if len(hits) != 1:
            raise ScanError('%s: anchor %r matched %d impl blocks' % (self.path, header, len(hits)))
        return hits[0]

    def all_items(self, items=None):
        for it in (self.items if items is None else items):
            yield it
            if it.children:
                yield from self.all_items(it.children)

    def find_fn(self, impl_header, name):
        if impl_header:
            imp = self.find_impl(impl_header)
            hits = [c for c in imp.children if c.kind == 'fn' and c.name == name]
        else:
            hits = [c for c in self.items if c.kind == 'fn' and c.name == name]
        if len(hits) != 1:
            raise ScanError('%s: anchor %s::%s matched %d fns' % (self.path, impl_header, name, len(hits)))
        return hits[0]

    def find_top(self, kind, name):
        hits = [c for c in self.items if c.kind == kind and c.name == name]
        if len(hits) != 1:
            raise ScanError('%s: anchor %s %s matched %d items' % (self.path, kind, name, len(hits)))
        return hits[0]

    def item_text(self, it):
        return self.text[it.start:it.end]

    # -- loops inside a fn ----------------------------------------------
    def loops(self, fn_item):
        """Return list of (kw_tok_index, body_open_tok_index) for every while/for/loop in
        the function body, in source order (nested loops included, pre-order)."""
        toks = self.toks
        res = []
        lo = fn_item.body_open_k + 1
        hi = fn_item.toks_hi - 1
        k = lo
        while k < hi:
            t = toks[k]
            if t.kind == 'id' and t.text in ('while', 'for', 'loop'):
                # 'for' in 'impl X for Y' cannot occur inside fn bodies; HRTB for<'a> is not used here
                if t.text == 'loop':
                    b = k + 1
                else:
                    b = self._find_block_after_expr(k + 1, hi)
                if toks[b].text != '{':
                    raise ScanError('loop body not found at %d' % t.start)
                res.append((k, b))
            k += 1
        return res

    def _find_block_after_expr(self, k, hi):
        """Scan an expression-without-struct-literal starting at token k and return the
        index of the '{' that opens the block following it."""
        toks = self.toks
        while k < hi:
            t = toks[k]
            if t.kind == 'punct' and t.text in ('(', '['):
                k = match_close(toks, k) + 1
                continue
            if t.kind == 'punct' and t.text == '{':
                return k
            if t.kind == 'id' and t.text == 'if':
                b = self._find_block_after_expr(k + 1, hi)
                k = match_close(toks, b) + 1
                while k < hi and toks[k].kind == 'id' and toks[k].text == 'else':
                    k += 1
                    if toks[k].kind == 'id' and toks[k].text == 'if':
                        b = self._find_block_after_expr(k + 1, hi)
                        k = match_close(toks, b) + 1
                    else:
                        k = match_close(toks, k) + 1
                continue
            if t.kind == 'id' and t.text == 'match':
                b = self._find_block_after_expr(k + 1, hi)
                k = match_close(toks, b) + 1
                continue
            k += 1
        raise ScanError('block not found')


def load(path):
    with open(path, encoding='utf-8') as f:
        return Source(f.read(), path)


if __name__ == '__main__':
    import sys
    s = load(sys.argv[1])
    for it in s.all_items():
        ind = '  ' if it.parent else ''
        print('%s%s %s  [%d..%d]' % (ind, it.kind, it.header if it.kind == 'impl' else it.name, it.start, it.end))
