#!/usr/bin/env python3
"""ONE-OFF helper (never run by a check): run every leaf contract of the registry on /repo's committed tree and
print KNOWN-FINDING lines for the failing keys. The output is reviewed by hand before it goes into
known_findings.txt; each category must have an explanation in WHY, otherwise the key is NOT listed."""
import os, re, sys, json
HERE = os.path.dirname(os.path.abspath(__file__)); VERIF = os.path.dirname(HERE)
sys.path.insert(0, HERE); sys.path.insert(0, os.path.join(VERIF, 'contracts'))
import weave, leaf_run, registry

REFORM = 'consequence of the calendar-reform special cases in LunarMonth::new (offset 1 for years 9..23, exclusions for 239/240): months overlap or leave a gap at the new-year boundaries of years 9, 24, 25, 240 (and a 28-day month in 236), so no bijection / continuous pillar exists there; upstream design, no safe repair'
YEAR0 = 'the governing term (winter solstice of December 0000) lies in year 0, which SolarDay cannot represent'
PHASE = 'PHASE_NAMES repeats names by upstream design (moon-phase names span several days), so name -> index returns the first day bearing the name'

def why(pid, key):
    cat = key.split(':')[0]
    m = re.search(r':(-?\d+)', key)
    y = int(m.group(1)) if m else None
    ym = re.match(r'\w+:(\d+)年', key)
    if ym: y = int(ym.group(1))
    if cat == 'name_inverse' and ':Phase:' in key: return PHASE
    if cat in ('dayterm', 'pillar', 'series') and y == 1: return YEAR0
    if y is not None and (8 <= y <= 25 or 236 <= y <= 240): return REFORM
    return None

def main():
    s = weave.make_scratch('known')
    lines = []; unexplained = []
    seen = set()
    for pid in sorted(registry.REG):
        for l in registry.REG[pid].get('L', []):
            res = leaf_run.run(s, [l], 'quick', 0)
            for r in res:
                for f in r.get('failures', []):
                    w = why(pid, f['key'])
                    if (pid, f['key']) in seen: continue
                    seen.add((pid, f['key']))
                    if w is None: unexplained.append((pid, f))
                    else: lines.append('KNOWN-FINDING: property=%s key=%s :: %s [%s]' % (pid, f['key'], f['detail'].replace('\n', ' ')[:160], w))
                print(pid, l['id'], r['status'], len(r.get('failures', [])), file=sys.stderr)
    open('/tmp/known_lines.txt', 'w').write('\n'.join(lines) + '\n')
    print('%d explained, %d UNEXPLAINED' % (len(lines), len(unexplained)), file=sys.stderr)
    for pid, f in unexplained[:40]: print('UNEXPLAINED', pid, f, file=sys.stderr)

if __name__ == '__main__':
    main()
