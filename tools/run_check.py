#!/usr/bin/env python3
"""Decide one property: run its K (Kani, in place), V (Verus, extracted) and L (leaf, bounded) obligations
against /repo's current working tree, write evidence/<id>.json, print VIOLATION / KNOWN-FINDING lines.

exit 0  every obligation discharged (known findings are reported, not failed)
exit 1  an obligation was refuted by its verifier / a leaf contract is false   (VIOLATION line printed)
exit 2  undecided: lost anchor, unsupported construct, timeout, tool error      (never a VIOLATION)
"""
import argparse
import json
import os
import random
import re
import shutil
import subprocess
import sys
import time
import traceback

HERE = os.path.dirname(os.path.abspath(__file__))
VERIF = os.path.dirname(HERE)
sys.path.insert(0, HERE)
sys.path.insert(0, os.path.join(VERIF, 'contracts'))

import rsscan      # noqa: E402
import weave       # noqa: E402
import kani_run    # noqa: E402
import verus_run   # noqa: E402
import leaf_run    # noqa: E402
import registry    # noqa: E402

TRUSTED_COMMON = [
    'Kani 0.68 / CBMC 6.11 / CaDiCaL, Verus 0.2026.09.13 / Z3, rustc; Kani model of alloc (Vec/String)',
    'CBMC IEEE-754 semantics == target f64 semantics (+ - * /, casts, floor/ceil/round; no FMA contraction)',
    'alloc::fmt::format stubbed in every Kani harness: message text is irrelevant, error/panic paths are still checked',
    '64-bit isize/usize',
]


def load_known():
    known, fixed = [], []
    p = os.path.join(VERIF, 'known_findings.txt')
    if os.path.exists(p):
        for line in open(p, encoding='utf-8'):
            line = line.strip()
            if line.startswith('KNOWN-FINDING:'):
                body = line[len('KNOWN-FINDING:'):].strip()
                head = body.split(' :: ')[0]
                m = re.match(r'property=(\S+)\s+key=(.*)$', head)
                if m:
                    known.append({'property': m.group(1), 'key': m.group(2).strip(), 'text': body})
            elif line.startswith('fixed:'):
                fixed.append(line)
    return known, fixed


def select_slices(spec, cells, tier, seed):
    """Which cells of a sliced obligation to run in this tier."""
    n = len(cells)
    if tier == 'thorough' or spec.get('quick', 'all') == 'all':
        return list(range(n))
    q = spec['quick']
    chosen = set()
    for b in q.get('boundary', []):
        if isinstance(b, int):
            chosen.add(b % n)
        else:  # 'v:<value>' -> the cell containing value
            v = int(b.split(':')[1])
            for i, (lo, hi) in enumerate(cells):
                if lo <= v <= hi:
                    chosen.add(i)
    rng = random.Random(seed)
    rest = [i for i in range(n) if i not in chosen]
    rng.shuffle(rest)
    chosen.update(rest[:q.get('sample', 0)])
    return sorted(chosen)


def main():
    ap = argparse.ArgumentParser()
    ap.add_argument('prop')
    ap.add_argument('--tier', default=os.environ.get('VERIF_TIER') or 'quick', choices=['quick', 'thorough'])
    ap.add_argument('--replay')
    ap.add_argument('--only', help='comma-separated obligation id prefixes (debugging)')
    ap.add_argument('--keep', action='store_true')
    ap.add_argument('--jobs', type=int, default=int(os.environ.get('VERIF_JOBS') or 16))
    args = ap.parse_args()
    pid = args.prop
    seed = int(os.environ.get('VERIF_SEED') or 0)
    t_start = time.time()
    if pid not in registry.REG:
        print('unknown / unclaimed property %s' % pid)
        return 2
    reg = registry.REG[pid]
    if args.replay:
        return replay(pid, args.replay)
    try:
        return check(pid, reg, args, seed, t_start)
    except rsscan.ScanError as e:
        print('UNDECIDED property=%s lost anchor / unscannable source: %s' % (pid, e))
        return 2
    except Exception:
        traceback.print_exc()
        print('UNDECIDED property=%s infrastructure error' % pid)
        return 2


def only_filter(args, oid):
    if not args.only:
        return True
    return any(oid.startswith(p) for p in args.only.split(','))


def check(pid, reg, args, seed, t_start):
    tier = args.tier
    known, fixed = load_known()
    known = [k for k in known if k['property'] == pid]
    obligations = []     # dicts: id, class, backend, status, time, clause, fn
    bounded = []         # leaf results
    violations = []      # dicts: obligation, detail, replay
    undecided = []
    known_hits = []
    assumptions = list(reg.get('assumptions', []))
    samples = []
    extraction_log = []
    scratch = weave.make_scratch(pid.lower())
    if args.keep:
        weave._scratches.clear()
        print('scratch kept at', scratch)
    logdir = os.path.join(VERIF, 'logs')
    os.makedirs(logdir, exist_ok=True)

    # ---------------- K: Kani in place ----------------
    kspecs = [k for k in reg.get('K', []) if only_filter(args, k['id'])]
    kspecs = [k for k in kspecs if tier == 'thorough' or not k.get('thorough_only')]
    if kspecs:
        woven = weave.weave(scratch)
        avail = kani_run.list_harnesses(scratch)
        cells_of = weave.last_slices
        to_run = {}   # full name -> (spec, label)
        for k in kspecs:
            if k.get('sliced'):
                cells = cells_of.get(k['id'])
                if not cells:
                    raise rsscan.ScanError('sliced obligation %s has no //@SLICES directive' % k['id'])
                width = max(2, len(str(len(cells) - 1)))
                sel = select_slices(k, cells, tier, seed)
                k['_cells'] = cells
                k['_sel'] = sel
                for i in sel:
                    name = '%s_s%0*d' % (k['id'], width, i)
                    if name not in avail:
                        raise rsscan.ScanError('harness %s missing' % name)
                    to_run[avail[name]] = (k, name, cells[i])
            elif k.get('prefix'):
                names = sorted(n for n in avail if n.startswith(k['id'] + '_') and n not in k.get('exclude', []))
                if tier != 'thorough':
                    names = [n for n in names if n not in k.get('thorough_names', [])]
                if len(names) < k.get('min_count', 1):
                    raise rsscan.ScanError('generated harness family %s has %d members, expected >= %d' % (k['id'], len(names), k.get('min_count', 1)))
                for n in names:
                    to_run[avail[n]] = (k, n, None)
            else:
                if k['id'] not in avail:
                    raise rsscan.ScanError('harness %s missing' % k['id'])
                to_run[avail[k['id']]] = (k, k['id'], None)
        timeout = reg.get('harness_timeout', {}).get(tier, '10m' if tier == 'quick' else '40m')
        kr = kani_run.run(scratch, list(to_run), jobs=args.jobs, harness_timeout=timeout,
                          wall_timeout=reg.get('wall_timeout', {}).get(tier, 1500 if tier == 'quick' else 6 * 3600),
                          log_path=os.path.join(logdir, '%s.kani.log' % pid))
        for full, (k, name, cell) in to_run.items():
            r = kr['results'][full]
            ob = {'id': name, 'class': 'K', 'backend': 'kani/cbmc', 'fn': k.get('fn'), 'clause': k.get('clause'),
                  'status': r['status'], 'solver_s': r.get('time'), 'slice': cell}
            expect = k.get('expect', 'success')
            if r['status'] in ('SUCCESS', 'FAILED') and not r.get('stub'):
                ob['status'] = 'UNDECIDED'
                ob['reason'] = 'format stub not applied'
            elif expect == 'panic_all':
                # every input in the harness domain must be refused by panicking:
                # all failed checks are the unwrap/expect panic and the ACCEPTED_INVALID cover is unreachable
                if r['status'] == 'FAILED' and r['cover'] == (0, 1) and r['failed_checks'] and \
                        all('unwrap_failed' in f['in'] or 'panic' in f['in'] or 'expect_failed' in f['in'] for f in r['failed_checks']):
                    ob['status'] = 'SUCCESS'
                    ob['note'] = 'refused by panic on the whole sub-domain (cover unreachable)'
                elif r['status'] in ('SUCCESS', 'FAILED'):
                    ob['status'] = 'FAILED'
                    ob['detail'] = 'an input of the invalid sub-domain is accepted (cover %s, failed checks %s)' % (r['cover'], r['failed_checks'])
            elif r['status'] == 'SUCCESS':
                if r['cover'] is not None and r['cover'][0] != r['cover'][1]:
                    ob['status'] = 'UNDECIDED'
                    ob['reason'] = 'vacuity guard: cover not satisfied %s' % (r['cover'],)
            elif r['status'] == 'FAILED':
                ob['detail'] = '; '.join('%s (%s:%d)' % (f['desc'], os.path.basename(f['file']), f['line']) for f in r['failed_checks'])
            if ob['status'] == 'UNDECIDED' and 'reason' not in ob:
                ob['reason'] = r.get('reason', 'no verdict')
            obligations.append(ob)
        # failures -> one violation per obligation id (slices grouped); counterexample from the paired
        # execution search if the obligation names one (seconds), else Kani concrete playback (minutes)
        failed_by_spec = {}
        for full, (k, name, cell) in to_run.items():
            ob = [o for o in obligations if o['id'] == name][0]
            if ob['status'] == 'FAILED':
                failed_by_spec.setdefault(k['id'], []).append((full, k, name, cell, ob))
        for sid, items in failed_by_spec.items():
            full, k, name, cell, ob = items[0]
            gob = dict(ob)
            gob['id'] = sid
            if len(items) > 1 or k.get('sliced'):
                gob['detail'] = (ob.get('detail') or '') + ' [failing slices: %s]' % ', '.join('%s %s' % (n, c) for _, _, n, c, _ in items[:40])
            viol = make_violation(pid, gob, None, full)
            if k.get('paired_leaf'):
                lr = leaf_run.run(scratch, [dict(k['paired_leaf'], id=sid + '.search')], tier, seed, jobs=args.jobs)
                for res in lr:
                    if res.get('failures'):
                        viol['input'] = res['failures'][0]
                        viol['input_source'] = 'paired execution search on the real crate (leaf runner %s)' % k['paired_leaf']['check']
                        viol['more_inputs'] = [f['key'] for f in res['failures'][1:20]]
                        viol['no_input'] = False
            if viol.get('no_input', True) and k.get('expect', 'success') == 'success' and not os.environ.get('VERIF_NO_PLAYBACK'):
                pb = kani_run.playback(scratch, full, wall_timeout=int(os.environ.get('VERIF_PLAYBACK_TIMEOUT') or 900))
                if pb:
                    viol['kani_concrete_playback'] = pb
                    viol['input_source'] = 'Kani concrete playback (kani::any() values in call order)'
                    viol['no_input'] = not pb.get('values')
            violations.append(viol)
        samples.append({'kani_cmd': kr['cmd'], 'wall_s': round(kr['wall'], 1)})
        assumptions.append('woven (cfg(kani)-only additions): ' + '; '.join(woven))

    # ---------------- S: structural scans of the current source ----------------
    for sname in reg.get('S', []):
        if not only_filter(args, sname):
            continue
        import scans
        st, detail = getattr(scans, sname)(scratch)
        ob = {'id': sname, 'class': 'S', 'backend': 'source scan (rsscan)', 'status': st, 'clause': scans.CLAUSES.get(sname), 'solver_s': 0.0}
        if st == 'FAILED':
            ob['detail'] = detail
            violations.append(make_violation(pid, ob, None, None))
        elif st == 'UNDECIDED':
            ob['reason'] = detail
        obligations.append(ob)

    # ---------------- V: Verus on extracted functions ----------------
    vspecs = [v for v in reg.get('V', []) if only_filter(args, v['id'])]
    vdir = os.path.join(scratch, 'verus_units')
    os.makedirs(vdir, exist_ok=True)
    for v in vspecs:
        if v.get('thorough_only') and tier != 'thorough':
            continue
        unit = os.path.join(vdir, v['id'] + '.rs')
        log, body = verus_run.build_unit(os.path.join(VERIF, v['template']), scratch, unit)
        extraction_log += log
        scan = assumption_scan(body)
        r = verus_run.run_unit(unit, timeout=v.get('timeout', 900))
        shutil.copy(unit, os.path.join(logdir, '%s.%s.rs' % (pid, v['id'])))
        nf = len([f for f in r.get('functions', []) if f['mode'] in ('exec', 'proof')])
        if r['status'] == 'SUCCESS':
            for f in r['functions']:
                if f['mode'] in ('exec', 'proof'):
                    obligations.append({'id': '%s::%s' % (v['id'], f['function'].split('::')[-1]), 'class': 'V', 'backend': 'verus/z3',
                                        'status': 'SUCCESS', 'solver_s': round(f['ms'] / 1000.0, 3), 'clause': v.get('clause')})
            if nf == 0:
                undecided.append('%s: vacuity guard: Verus reported no exec/proof functions' % v['id'])
        elif r['status'] == 'FAILED':
            ob = {'id': v['id'], 'class': 'V', 'backend': 'verus/z3', 'status': 'FAILED', 'clause': v.get('clause'),
                  'detail': '; '.join(r.get('errors_text', []))[:2000], 'failed_functions': r.get('failed_functions')}
            obligations.append(ob)
            viol = make_violation(pid, ob, None, None, verus_stderr=r.get('stderr', '')[-6000:])
            # paired execution search for a failing input
            if v.get('paired_leaf'):
                lr = leaf_run.run(scratch, v['paired_leaf'], tier, seed, jobs=args.jobs)
                for res in lr:
                    if res.get('failures'):
                        viol['input'] = res['failures'][0]
                        viol['no_input'] = False
            violations.append(viol)
        else:
            obligations.append({'id': v['id'], 'class': 'V', 'backend': 'verus/z3', 'status': 'UNDECIDED', 'reason': r.get('reason')})
        assumptions += ['verus unit %s: %s' % (v['id'], s) for s in scan]
        # must-fail twin (vacuity guard for the unit's preconditions)
        if r['status'] == 'SUCCESS' and v.get('twin') and (tier == 'thorough' or v.get('twin_quick')):
            tbody = body
            for a, b in v['twin']:
                if a not in tbody:
                    undecided.append('%s: must-fail twin anchor %r not found' % (v['id'], a))
                tbody = tbody.replace(a, b, 1)
            tp = os.path.join(vdir, v['id'] + '_twin.rs')
            open(tp, 'w', encoding='utf-8').write(tbody)
            tr = verus_run.run_unit(tp, timeout=v.get('timeout', 900))
            if tr['status'] != 'FAILED':
                undecided.append('%s: must-fail twin was not rejected by Verus (%s): the unit may be vacuous' % (v['id'], tr['status']))
            else:
                samples.append({'must_fail_twin': v['id'], 'rejected': True})

    # ---------------- L: leaf contracts (bounded / exhaustive execution) ----------------
    lspecs = [l for l in reg.get('L', []) if only_filter(args, l['id'])]
    if lspecs:
        lres = leaf_run.run(scratch, lspecs, tier, seed, jobs=args.jobs)
        for res in lres:
            b = {'id': res['id'], 'class': 'L', 'backend': 'native execution', 'evaluations': res.get('evaluations', 0),
                 'domain': res.get('domain'), 'exhaustive': res.get('exhaustive', False), 'status': res['status'],
                 'wall_s': res.get('wall_s'), 'samples': res.get('samples', [])[:3], 'distinct': res.get('distinct', 0)}
            bounded.append(b)
            if res['status'] == 'UNDECIDED':
                undecided.append('%s: %s' % (res['id'], res.get('reason')))
            new_fail = []
            for f in res.get('failures', []):
                kf = [k for k in known if k['key'] == f['key']]
                if kf:
                    known_hits.append(kf[0])
                else:
                    new_fail.append(f)
            if new_fail:
                ob = {'id': res['id'], 'class': 'L', 'backend': 'native execution', 'status': 'FAILED',
                      'clause': res.get('clause'), 'detail': '%d failing inputs, first: %s' % (len(new_fail), json.dumps(new_fail[0], ensure_ascii=False))}
                viol = make_violation(pid, ob, None, None)
                viol['input'] = new_fail[0]
                viol['all_failing_keys'] = [f['key'] for f in new_fail[:200]]
                viol['no_input'] = False
                violations.append(viol)

    # ---------------- verdict ----------------
    for ob in obligations:
        if ob['status'] == 'UNDECIDED':
            undecided.append('%s: %s' % (ob['id'], ob.get('reason')))
    # known findings that are attached to obligations proved with the listed inputs excluded
    for k in known:
        if k not in known_hits and k.get('key', '').startswith('excluded:'):
            known_hits.append(k)
    n_ob = len(obligations)
    n_ok = sum(1 for o in obligations if o['status'] == 'SUCCESS')
    level = reg['level']
    cov = {
        'obligations': n_ob,
        'discharged': n_ok,
        'checker_cmd': 'python3 tools/run_check.py %s --tier %s  (cargo kani -Z function-contracts -Z stubbing on the woven scratch copy; verus <unit>.rs on extracted functions; leaf runner)' % (pid, tier),
        'trusted_base': TRUSTED_COMMON + reg.get('trusted', []),
        'functions_under_contract': reg.get('functions', []),
        'obligation_list': [{k: v for k, v in o.items() if k in ('id', 'class', 'backend', 'status', 'solver_s', 'slice', 'fn', 'clause', 'note', 'reason')} for o in obligations],
        'solver_time_s': round(sum((o.get('solver_s') or 0) for o in obligations), 1),
        'by_backend': {b: [sum(1 for o in obligations if o['backend'] == b), sum(1 for o in obligations if o['backend'] == b and o['status'] == 'SUCCESS')] for b in sorted({o['backend'] for o in obligations})},
        'bounded_standins': bounded,
        'extraction': extraction_log,
        'samples': samples + [{'obligation': o['id'], 'clause': o.get('clause'), 'slice': o.get('slice')} for o in obligations[:3]],
        'known_findings_matched': [k['text'] for k in known_hits],
        'undecided': undecided,
        'explanation': reg.get('explanation', ''),
        'evaluations': sum(b.get('evaluations', 0) for b in bounded) + n_ob,
        'distinct_nontrivial': sum(b.get('distinct', 0) for b in bounded) + n_ok,
        'rule': 'one evaluation per leaf-contract input executed on the real crate, plus one per verifier obligation; distinct = distinct inputs (leaf) / distinct discharged obligations',
        'exhaustive': all(b.get('exhaustive') for b in bounded) if bounded else False,
    }
    sliced_note = []
    for k in reg.get('K', []):
        if k.get('_cells'):
            sliced_note.append('%s: %d of %d slices run in this tier (%s)' % (k['id'], len(k['_sel']), len(k['_cells']), 'complete partition' if len(k['_sel']) == len(k['_cells']) else 'subset: boundary + seed-rotated sample; the full partition runs in the thorough tier'))
    cov['slices'] = sliced_note
    ev = {
        'property_id': pid, 'tier': tier, 'seed': seed, 'level': level, 'coverage': cov,
        'assumptions': assumptions + ['leaf contract %s checked by execution only (bounded stand-in, not counted as discharged)' % b['id'] for b in bounded],
        'wall_s': round(time.time() - t_start, 1),
        'violations': len(violations),
    }
    # development runs (--only) and mutation campaigns (VERIF_EVIDENCE_DIR) must not overwrite the record of the last full run
    evdir = os.environ.get('VERIF_EVIDENCE_DIR') or (os.path.join(VERIF, '.cache', 'evidence-partial') if args.only else os.path.join(VERIF, 'evidence'))
    os.makedirs(evdir, exist_ok=True)
    json.dump(ev, open(os.path.join(evdir, pid + '.json'), 'w'), indent=1, ensure_ascii=False)

    for k in known_hits:
        print('KNOWN-FINDING: %s' % k['text'])
    if violations:
        for v in violations:
            os.makedirs(os.path.join(VERIF, 'replays', pid), exist_ok=True)
            path = os.path.join(VERIF, 'replays', pid, v['obligation'].replace('::', '__') + '.json')
            json.dump(v, open(path, 'w'), indent=1, ensure_ascii=False)
            tail = ' no-failing-input-found' if v.get('no_input', True) else ''
            print('VIOLATION property=%s replay=%s obligation=%s%s' % (pid, path, v['obligation'], tail))
        print('property %s: %d/%d obligations discharged, %d violated, %d undecided' % (pid, n_ok, n_ob, len(violations), len(undecided)))
        return 1
    if undecided:
        for u in undecided:
            print('UNDECIDED property=%s %s' % (pid, u))
        return 2
    print('property %s held: %d/%d obligations discharged (%s), %d leaf contracts executed, %.0fs' % (
        pid, n_ok, n_ob, ', '.join('%s %d' % (b, c[1]) for b, c in cov['by_backend'].items()), len(bounded), time.time() - t_start))
    return 0


def assumption_scan(body):
    import re
    found = []
    for pat in ('assume(', 'admit(', 'external_body', 'assume_specification', 'verifier::truncate', 'external_fn_specification', 'external_type_specification'):
        n = body.count(pat)
        if n:
            found.append('%d x %s' % (n, pat))
    return found


def make_violation(pid, ob, pb, full, verus_stderr=None):
    v = {'property': pid, 'obligation': ob['id'], 'class': ob['class'], 'backend': ob['backend'], 'function': ob.get('fn'),
         'clause': ob.get('clause'), 'verifier_output': ob.get('detail'), 'kani_harness': full, 'no_input': True}
    if verus_stderr:
        v['verus_stderr'] = verus_stderr
    if pb:
        v['kani_concrete_playback'] = pb
        v['no_input'] = not pb.get('values')
    return v


def replay(pid, path):
    v = json.load(open(path))
    print(json.dumps({k: v[k] for k in v if k not in ('verus_stderr',)}, indent=1, ensure_ascii=False)[:4000])
    # re-run just that obligation against the current tree
    cmd = [sys.executable, os.path.abspath(__file__), pid, '--only', v['obligation'].split('::')[0]]
    return subprocess.call(cmd)


if __name__ == '__main__':
    sys.exit(main())
