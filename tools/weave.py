"""Scratch copy of /repo's working tree + weaving of Kani contracts / harness modules.

Only ADDS text (attribute lines above anchored items, one `mod` line at the end of a file).
After weaving, every original line must still be present, in order (checked with difflib);
otherwise ScanError -> exit 2.
"""
import atexit
import difflib
import json
import os
import re
import shutil
import tempfile

import rsscan

VERIF = os.path.dirname(os.path.dirname(os.path.abspath(__file__)))
REPO = os.environ.get('VERIF_REPO', '/repo')

_scratches = []


def _cleanup():
    for d in _scratches:
        shutil.rmtree(d, ignore_errors=True)


atexit.register(_cleanup)


def make_scratch(tag='k'):
    base = os.environ.get('VERIF_SCRATCH_BASE') or tempfile.gettempdir()
    d = tempfile.mkdtemp(prefix='tyme-verif-%s-' % tag, dir=base)
    _scratches.append(d)
    shutil.copytree(os.path.join(REPO, 'src'), os.path.join(d, 'src'))
    for f in ('Cargo.toml', 'Cargo.lock'):
        p = os.path.join(REPO, f)
        if os.path.exists(p):
            shutil.copy(p, d)
    return d


SLICE_RE = re.compile(r'^[ \t]*//@SLICES\s+(.*)$', re.M)


def expand_slices(text, record):
    """`//@SLICES prefix=P call=F lo=A hi=B n=N [attr=<kani attribute>]` -> N harness fns P_s00..,
    each calling F(lo_i, hi_i) on one cell of an exact partition of [A, B]."""
    def repl(m):
        kv = dict(re.findall(r'(\w+)=("[^"]*"|\S+)', m.group(1)))
        prefix, call = kv['prefix'], kv['call']
        lo, hi, n = int(kv['lo']), int(kv['hi']), int(kv['n'])
        attr = kv.get('attr', '"#[kani::proof]"').strip('"')
        extra = kv.get('extra', '""').strip('"')
        total = hi - lo + 1
        width = max(2, len(str(n - 1)))
        out = []
        cells = []
        for i in range(n):
            a = lo + total * i // n
            b = lo + total * (i + 1) // n - 1
            cells.append((a, b))
            out.append('%s\n#[kani::stub(alloc::fmt::format, stub_format)]\n%s\nfn %s_s%0*d() { %s(%d, %d) }\n' % (attr, extra, prefix, width, i, call, a, b))
        # partition check
        assert cells[0][0] == lo and cells[-1][1] == hi and all(cells[i][1] + 1 == cells[i + 1][0] for i in range(n - 1)), 'slices do not partition'
        record[prefix] = cells
        return '\n'.join(out)
    return SLICE_RE.sub(repl, text)


def module_path(rel):
    """src/tyme/culture/star/nine.rs -> tyme::culture::star::nine ; src/tyme/mod.rs -> tyme"""
    parts = rel[len('src/'):-len('.rs')].split('/')
    if parts[-1] == 'mod':
        parts = parts[:-1]
    return '::'.join(parts)


def find_cycles(src):
    """Cyclic culture types of one source file: inherent impl X with `fn from_index(index: isize)` built on
    LoopTyme::from_index(<TABLE>.to_vec()...). Returns [(Type, TABLE, size, has_from_name)]."""
    out = []
    sizes = {}
    for it in src.items:
        if it.kind == 'static' and it.name and it.name.endswith('_NAMES'):
            m = re.search(r'\[\s*&str\s*;\s*(\d+)\s*\]', src.item_text(it))
            if m:
                sizes[it.name] = int(m.group(1))
    for it in src.items:
        if it.kind != 'impl' or ' for ' in it.header:
            continue
        fi = [c for c in it.children if c.kind == 'fn' and c.name == 'from_index']
        if not fi:
            continue
        txt = src.item_text(fi[0])
        m = re.search(r'LoopTyme::from_index\(\s*(\w+)\.to_vec\(\)', txt)
        if not m or not re.search(r'fn\s+from_index\s*\(\s*index\s*:\s*isize\s*\)', txt):
            continue
        table = m.group(1)
        if table not in sizes:
            continue
        ty = it.header.split()[-1]
        has_name = any(c.kind == 'fn' and c.name == 'from_name' for c in it.children)
        out.append((ty, table, sizes[table], has_name))
    return out


CYCLE_HARNESS = '''
// generated for cyclic type {ty} (table {table}, size {n}) found in {rel}
#[kani::proof]
#[kani::stub(alloc::fmt::format, stub_format)]
fn c11_cycle_{lty}() {{
  let i: isize = kani::any();
  let n: isize = kani::any();
  kani::assume(n > -(1isize << 62) && n < (1isize << 62));
  let x = {ty}::from_index(i);
  let xi = spec::emod(i as i64, {n});
  assert!(x.get_index() as i64 == xi, "from_index(i).index == i mod size, every isize");
  assert!(x.get_size() == {n}, "size");
  let y = x.next(n);
  assert!(y.get_index() as i64 == spec::emod(xi + n as i64, {n}), "next(n).index == (index + n) mod size");
  kani::cover!(i == -1 && n == -{n}, "cycle reachable");
}}
'''

GENERIC_MODULE = '''// generic Kani harness module (generated): woven as `mod verif_k` at the end of {rel}
#![allow(dead_code, unused_imports)]
use super::*;
use crate::tyme::{{Culture, Tyme}};
#[path = "@SPEC@"]
pub mod spec;
pub fn stub_format(_a: core::fmt::Arguments<'_>) -> String {{ String::new() }}
//@CYCLES
'''


def weave(scratch, plan_path=None):
    """Apply kani/weave.json to the scratch copy. Returns a list of woven anchors."""
    plan_path = plan_path or os.path.join(VERIF, 'kani', 'weave.json')
    plan = json.load(open(plan_path))
    by_file = {}
    for a in plan.get('attrs', []):
        by_file.setdefault(a['file'], []).append(a)
    woven = []
    # every source file that defines cyclic culture types gets a harness module (generated if none is written)
    cycles = {}
    have = {m['file'] for m in plan.get('modules', [])}
    for root, _, fs in os.walk(os.path.join(scratch, 'src')):
        for f in fs:
            if f.endswith('.rs'):
                rel = os.path.relpath(os.path.join(root, f), scratch)
                cy = find_cycles(rsscan.load(os.path.join(root, f)))
                if cy:
                    cycles[rel] = cy
                    if rel not in have:
                        plan.setdefault('modules', []).append({'file': rel, 'harness': None})
                        have.add(rel)
    files = set(by_file) | {m['file'] for m in plan.get('modules', [])}
    for rel in sorted(files):
        path = os.path.join(scratch, rel)
        orig = open(path, encoding='utf-8').read()
        src = rsscan.Source(orig, rel)
        inserts = []  # (offset, text)
        for a in by_file.get(rel, []):
            if a.get('struct'):
                it = src.find_top('struct', a['struct'])
                name = 'struct ' + a['struct']
            else:
                it = src.find_fn(a.get('impl'), a['fn'])
                name = '%s::%s' % (a.get('impl'), a['fn'])
            # indentation of the item's first line
            ls = orig.rfind('\n', 0, it.start) + 1
            indent = orig[ls:it.start]
            if indent.strip():
                raise rsscan.ScanError('%s: item %s does not start its line' % (rel, name))
            text = ''.join('%s%s\n' % (indent, l) for l in a['lines'])
            inserts.append((ls, text))
            woven.append('%s %s' % (rel, name))
        new = orig
        for off, text in sorted(inserts, reverse=True):
            new = new[:off] + text + new[off:]
        for m in plan.get('modules', []):
            if m['file'] == rel:
                hp = os.path.join(scratch, 'verif_k', 'k_' + module_path(rel).replace('::', '_') + '.rs')
                if not new.endswith('\n'):
                    new += '\n'
                new += '\n#[cfg(kani)]\n#[path = "%s"]\npub(crate) mod verif_k;\n' % hp
                woven.append('%s mod verif_k -> %s' % (rel, m['harness'] or 'generated'))
        # pure-addition check
        a_lines = orig.split('\n')
        b_lines = new.split('\n')
        sm = difflib.SequenceMatcher(None, a_lines, b_lines, autojunk=False)
        for tag, i1, i2, j1, j2 in sm.get_opcodes():
            if tag in ('replace', 'delete'):
                raise rsscan.ScanError('%s: weaving is not a pure addition at original line %d' % (rel, i1 + 1))
        open(path, 'w', encoding='utf-8').write(new)
    # harness modules (with //@SLICES directives expanded) and the plain spec library
    vk = os.path.join(scratch, 'verif_k')
    os.makedirs(vk, exist_ok=True)
    slices = {}
    modmap = {}
    for m in plan.get('modules', []):
        rel = m['file']
        if m['harness']:
            text = open(os.path.join(VERIF, m['harness']), encoding='utf-8').read()
        else:
            text = GENERIC_MODULE.format(rel=rel)
        gen = ''.join(CYCLE_HARNESS.format(ty=ty, lty=ty.lower(), table=tb, n=n, rel=rel) for ty, tb, n, hn in cycles.get(rel, []))
        if '//@CYCLES' in text:
            text = text.replace('//@CYCLES', gen)
        else:
            text += gen
        text = expand_slices(text, slices).replace('@SPEC@', os.path.join(vk, 'spec_plain.rs'))
        fn = 'k_' + module_path(rel).replace('::', '_') + '.rs'
        modmap[fn] = module_path(rel)
        open(os.path.join(vk, fn), 'w', encoding='utf-8').write(text)
    json.dump(modmap, open(os.path.join(vk, 'modules.json'), 'w'))
    globals()['last_cycles'] = cycles
    import specgen
    spec_files = sorted(os.path.join(VERIF, 'spec', f) for f in os.listdir(os.path.join(VERIF, 'spec')) if f.endswith('.rs'))
    parts = ['#![allow(dead_code, unused_parens, unused_variables)]\n']
    for f in spec_files:
        if not f.endswith('_v.rs'):
            parts.append(specgen.plain(open(f, encoding='utf-8').read()))
    open(os.path.join(vk, 'spec_plain.rs'), 'w', encoding='utf-8').write('\n'.join(parts))
    globals()['last_slices'] = slices
    # Kani config: offline
    os.makedirs(os.path.join(scratch, '.cargo'), exist_ok=True)
    open(os.path.join(scratch, '.cargo', 'config.toml'), 'w').write('[net]\noffline = true\n')
    return woven


if __name__ == '__main__':
    import sys
    d = make_scratch()
    print(d)
    for w in weave(d):
        print(' ', w)
    if len(sys.argv) > 1 and sys.argv[1] == 'keep':
        _scratches.clear()
