#!/usr/bin/env python3
"""Regenerate MANIFEST.json from contracts/registry.py (checks) + the fixed header below."""
import json, os, sys
HERE = os.path.dirname(os.path.abspath(__file__))
VERIF = os.path.dirname(HERE)
sys.path.insert(0, os.path.join(VERIF, 'contracts'))
import registry

NA = {
    'C05': 'numerical agreement of long f64 trigonometric series (VSOP/ELP truncations, nutation, Newton inverses, TT-UT spline) with the true Sun/Moon longitudes and an external theory: Verus leaves f64 uninterpreted and Kani/CBMC has no semantics for sin/cos, so no contract within reach can state or decide it (DESIGN.md 5/C05); the day-level consequences other properties need are stated and checked as leaf contracts L-TD / L-TI / L-NEW instead',
}

def main():
    checks = []
    for pid in sorted(registry.REG):
        r = registry.REG[pid]
        checks.append({
            'property_id': pid,
            'quick_cmd': 'python3 tools/run_check.py %s --tier quick' % pid,
            'thorough_cmd': 'python3 tools/run_check.py %s --tier thorough' % pid,
            'evidence_file': 'evidence/%s.json' % pid,
            'replay_cmd_template': 'python3 tools/run_check.py %s --replay {path}' % pid,
            'engine': 'contracts',
            'level_claimed': {'category': r['level'], 'text': r['level_text'], 'design_ref': 'DESIGN.md ' + r.get('design_ref', '')},
            'level_note': r['level_note'],
            'technique': r['technique'],
        })
    na = [{'property_id': k, 'reason': v} for k, v in sorted(NA.items())]
    for pid in ['C%02d' % i for i in range(1, 21)]:
        if pid not in registry.REG and pid not in NA:
            na.append({'property_id': pid, 'reason': 'not claimed yet: machinery for this property has not landed (work in progress, see DESIGN.md section 7)'})
    m = {
        'version': 1,
        'setup_cmd': 'python3 tools/setup.py',
        'hooks': {
            'guard': 'kani',
            'enable': 'no hooks live in /repo: contract attributes (#[cfg_attr(kani, ..)]) and harness modules (#[cfg(kani)] mod verif_k) are woven into a scratch copy of the working tree at check time by tools/weave.py (pure additions, checked)',
            'baseline_off_cmd': 'cd /repo && cargo test --workspace --no-fail-fast --offline',
            'source_commits': [],
            'add_only': True,
        },
        'engines': [{'name': 'contracts', 'path': 'tools/run_check.py', 'serves_properties': sorted(registry.REG),
                     'kind_free_text': 'contract-based deductive verification: Kani function contracts / full-domain harnesses on the real functions compiled in place (class K), Verus on mechanically extracted functions + lemmas (class V), leaf contracts checked by exhaustive native execution and labelled bounded (class L)'}],
        'checks': checks,
        'not_applicable': sorted(na, key=lambda x: x['property_id']),
        'notes': 'Genuine defects of the pinned tree were repaired by unguarded fix: commits in /repo (listed in known_findings.txt as fixed:); remaining ones are KNOWN-FINDING entries there. Exit 2 = undecided (lost anchor, timeout, tool error), never reported as a violation.',
    }
    json.dump(m, open(os.path.join(VERIF, 'MANIFEST.json'), 'w'), indent=1, ensure_ascii=False)
    print('MANIFEST.json: %d checks, %d not_applicable' % (len(checks), len(na)))

if __name__ == '__main__':
    main()
