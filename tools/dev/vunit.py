import sys, os; sys.path.insert(0,'/verif/tools')
import verus_run
u=sys.argv[1]
log, body = verus_run.build_unit('/verif/verus/%s.rs'%u, os.environ.get('VERIF_REPO', '/repo'), '/tmp/%s_unit.rs'%u)
r = verus_run.run_unit('/tmp/%s_unit.rs'%u)
print(r['status'], r.get('verified'), r.get('errors'), (r.get('reason') or '')[:3000])
print('\n'.join(r.get('errors_text',[])))
if r['status']=='FAILED': print(r['stderr'][-int(sys.argv[2]) if len(sys.argv)>2 else -3500:])
for f in r['functions']:
    if f['ms']>500: print(f)
