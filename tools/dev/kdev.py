import sys, os, subprocess, time
sys.path.insert(0, '/verif/tools'); sys.path.insert(0, '/verif')
os.environ.setdefault('VERIF_REPO', '/repo')  # point VERIF_REPO at a scratch worktree when /repo is being patched
import weave, kani_run
d = '/tmp/kdev-scratch'
import shutil
shutil.rmtree(d, ignore_errors=True)
s = weave.make_scratch('dev'); weave._scratches.clear()
os.rename(s, d)
weave.weave(d)
avail = kani_run.list_harnesses(d)
names = [avail[n] for n in sys.argv[2:]]
t0 = time.time()
r = kani_run.run(d, names, jobs=16, harness_timeout=sys.argv[1], wall_timeout=3600, log_path='/tmp/kdev.log')
for k, v in r["results"].items(): print(k.split("::")[-1], v)
print('wall', round(time.time() - t0))
