import sys,json; sys.path.insert(0,'/verif/tools')
import weave, leaf_run
s=weave.make_scratch('l')
specs=eval(sys.argv[1])
r=leaf_run.run(s,specs,sys.argv[2] if len(sys.argv)>2 else 'quick',0)
for x in r:
    print(x['id'],x['status'],x.get('reason'),x.get('evaluations'),round(x.get('wall_s',0),1),len(x.get('failures',[])))
    for f in x.get('failures',[])[:int(sys.argv[3]) if len(sys.argv)>3 else 40]: print('   ',f)
    print('   samples',x.get('samples',[])[:2])
