"""Assemble a Verus proof unit from a template + functions extracted mechanically from /repo.

Template directives (each starts a line; see DESIGN.md 2.4 E1-E7):

  //@EXTRACT file=<rel path> [impl="<impl header>"] fn=<name> [rename=<new>]
  //@sig
      <requires/ensures/decreases clauses, copied verbatim after the signature>
  //@loop <k>
      <invariant/decreases clauses, inserted between the k-th loop header and its '{'>
  //@loop_start <k> | //@loop_end <k> | //@after_loop <k>
      <text inserted right after the '{' of the k-th loop body / right before its '}' / right after
       its '}' (proof blocks only)>
  //@body_start
      <text inserted right after the function's opening '{' (proof blocks only)>
  //@END

  //@STRUCT file=<rel path> struct=<Name> [derive="Clone, Copy"]      copies the struct definition
  //@STATIC file=<rel path> static=<NAME>                              copies `static X: T = v;` as `const`

What extraction changes in a function (complete list; everything else is token-for-token):
  E2  leading `pub` dropped; the fn is placed wherever the directive stands (trait impls are flattened)
  E2b the return type `-> T` is written `-> (r: T)` (names the result for ensures clauses)
  E3  `format!(..)` -> `verif_msg()`;  `.to_string()` on a &'static str table entry is kept as is
  E8  `x %= e;` / `x /= e;` on an integer local -> `x = x % (e);` (semantics-preserving desugaring)
  E9  `.into()` (method call, no arguments) -> `.verif_into()`: Verus has no spec for user `Into` impls; the unit declares
      `verif_into` on the source type with the contract of the one-line impl (`fn into(self) -> LoopTyme { self.parent }`)
  E10 `for _ in a..b` -> `for verif_i in a..b` (names the counter so that a loop invariant can refer to it; nothing else changes)
  E11 (opt-in, `havoc_f64=1` on the directive) a statement `x += E;` / `x = E;` whose right side computes through `as f64` is
      written `x = verif_havoc_isize();` - an ARBITRARY value (over-approximation: whatever the unit proves holds for every
      value of E, so the rule can only make a proof harder; it is used for safety clauses that do not depend on E)
  E12 `for &x in E {` -> `for verif_r_x in E { let x = *verif_r_x;` (Verus has no reference patterns; the desugaring is exact for Copy items)
  E5  the clauses above are inserted at the anchored positions
Any lost anchor raises ScanError (exit 2).
"""
import os
import re

import rsscan


def _kv(s):
    return {k: v.strip('"') for k, v in re.findall(r'(\w+)=("[^"]*"|\S+)', s)}


class Extraction:
    def __init__(self, repo_root):
        self.root = repo_root
        self.cache = {}
        self.log = []      # what was extracted / dropped, for evidence

    def src(self, rel):
        if rel not in self.cache:
            self.cache[rel] = rsscan.load(os.path.join(self.root, rel))
        return self.cache[rel]

    def fn_text(self, d, sections):
        s = self.src(d['file'])
        it = s.find_fn(d.get('impl'), d['fn'])
        toks = s.toks
        kw = it.kw_tok
        # start at `fn` (drops attributes, doc comments, `pub`)
        start = toks[kw].start
        body_open = toks[it.body_open_k].start
        loops = s.loops(it)
        inserts = []  # (offset, text, order)
        if 'sig' in sections:
            inserts.append((body_open, '\n' + sections['sig'].rstrip() + '\n  ', 0))
        if 'body_start' in sections:
            inserts.append((body_open + 1, '\n' + sections['body_start'].rstrip() + '\n', 1))
        for key, text in sections.items():
            m = re.match(r'(loop|loop_start|loop_end|after_loop)\s+(\d+)$', key)
            if not m:
                continue
            k = int(m.group(2))
            if k >= len(loops):
                raise rsscan.ScanError('%s::%s: loop ordinal %d not found (function has %d loops)' % (d.get('impl'), d['fn'], k, len(loops)))
            b = toks[loops[k][1]].start
            close = toks[rsscan.match_close(toks, loops[k][1])]
            if m.group(1) == 'loop':
                inserts.append((b, '\n' + text.rstrip() + '\n    ', 0))
            elif m.group(1) == 'loop_start':
                inserts.append((b + 1, '\n' + text.rstrip() + '\n', 1))
            elif m.group(1) == 'loop_end':
                inserts.append((close.start, '\n' + text.rstrip() + '\n', 1))
            else:
                inserts.append((close.end, '\n' + text.rstrip() + '\n', 1))
        want_loops = d.get('loops')
        if want_loops is not None and int(want_loops) != len(loops):
            raise rsscan.ScanError('%s::%s: expected %s loops, found %d' % (d.get('impl'), d['fn'], want_loops, len(loops)))
        # E3: format!(..) -> verif_msg()
        repl = []
        dropped = []
        for j in range(it.kw_tok, it.toks_hi):
            t = toks[j]
            if t.kind == 'id' and t.text == 'format' and toks[j + 1].text == '!' and toks[j + 2].text == '(':
                e = rsscan.match_close(toks, j + 2)
                repl.append((t.start, toks[e].end, 'verif_msg()'))
                dropped.append('format!')
        text = s.text
        # E8: `x %= e;` / `x /= e;` on a local are written `x = x % (e);` (Verus rejects the compound forms on signed
        # machine integers; Rust defines them as exactly this for primitive integers)
        for j in range(it.body_open_k, it.toks_hi - 2):
            t = toks[j]
            if t.kind == 'id' and toks[j + 1].kind == 'punct' and toks[j + 1].text in '%/' and toks[j + 2].text == '=' \
                    and toks[j + 1].end == toks[j + 2].start and toks[j - 1].text in (';', '{', '}'):
                e = j + 3
                while toks[e].text != ';':
                    e += 1
                expr = text[toks[j + 3].start:toks[e].start]
                repl.append((t.start, toks[e].start, '%s = %s %s (%s)' % (t.text, t.text, toks[j + 1].text, expr.strip())))
                dropped.append('compound %s=' % toks[j + 1].text)
        # E9: `.into()` -> `.verif_into()`
        for j in range(it.body_open_k, it.toks_hi - 3):
            t = toks[j]
            if t.kind == 'id' and t.text == 'into' and toks[j - 1].text == '.' and toks[j + 1].text == '(' and toks[j + 2].text == ')':
                repl.append((t.start, t.end, 'verif_into'))
                dropped.append('.into() -> .verif_into()')
        # E11: havoc statements computing through f64 (opt-in)
        if d.get('havoc_f64'):
            for j in range(it.body_open_k, it.toks_hi - 3):
                t = toks[j]
                if t.kind == 'id' and toks[j - 1].text in (';', '{', '}') and (toks[j + 1].text == '=' or (toks[j + 1].text == '+' and toks[j + 2].text == '=' and toks[j + 1].end == toks[j + 2].start)):
                    e = j + 1
                    while toks[e].text != ';':
                        e += 1
                    seg = [toks[q].text for q in range(j, e)]
                    if any(seg[q] == 'as' and seg[q + 1] == 'f64' for q in range(len(seg) - 1)):
                        repl.append((t.start, toks[e].start, '%s = verif_havoc_isize()' % t.text))
                        dropped.append('statement computing through f64 -> arbitrary value (E11)')
        # E12: `for &x in E {` -> `for verif_r_x in E { let x = *verif_r_x;`
        for j in range(it.body_open_k, it.toks_hi - 4):
            t = toks[j]
            if t.kind == 'id' and t.text == 'for' and toks[j + 1].text == '&' and toks[j + 2].kind == 'id' and toks[j + 3].text == 'in':
                name = toks[j + 2].text
                q = j + 4
                while toks[q].text != '{':
                    q += 1
                repl.append((toks[j + 1].start, toks[j + 2].end, 'verif_r_%s' % name))
                repl.append((toks[q].end, toks[q].end, ' let %s = *verif_r_%s;' % (name, name)))
                dropped.append('for &%s in -> for verif_r_%s in + let %s = *verif_r_%s' % (name, name, name, name))
        # E10: `for _ in` -> `for verif_i in`
        for j in range(it.body_open_k, it.toks_hi - 3):
            t = toks[j]
            if t.kind == 'id' and t.text == 'for' and toks[j + 1].text == '_' and toks[j + 2].text == 'in':
                repl.append((toks[j + 1].start, toks[j + 1].end, 'verif_i'))
                dropped.append('for _ in -> for verif_i in')
        # E2b: name the return value `r` so that ensures clauses can refer to it: `-> T` becomes `-> (r: T)`
        depth = 0
        for j in range(it.kw_tok, it.body_open_k):
            t = toks[j]
            if t.kind == 'punct' and t.text in '([':
                depth += 1
            elif t.kind == 'punct' and t.text in ')]':
                depth -= 1
            elif depth == 0 and t.kind == 'punct' and t.text == '-' and toks[j + 1].text == '>' and toks[j + 1].start == t.end:
                ty_start = toks[j + 2].start
                ty_end = toks[it.body_open_k - 1].end
                repl.append((ty_start, ty_end, '(r: %s)' % text[ty_start:ty_end]))
                break
        edits = [(a, b, r) for a, b, r in repl] + [(o, o, t) for o, t, _ in sorted(inserts, key=lambda x: (x[0], x[2]))]
        edits.sort(key=lambda x: (x[0], x[1]))
        out = []
        pos = start
        for a, b, r in edits:
            if a < pos:
                raise rsscan.ScanError('overlapping edits in %s' % d['fn'])
            out.append(text[pos:a])
            out.append(r)
            pos = b
        out.append(text[pos:it.end])
        res = ''.join(out)
        if d.get('rename'):
            res = re.sub(r'^fn\s+%s\b' % re.escape(d['fn']), 'fn ' + d['rename'], res, count=1)
        self.log.append({'file': d['file'], 'item': '%s::%s' % (d.get('impl') or '', d['fn']), 'loops': len(loops),
                         'dropped': sorted(set(['pub/attrs/docs'] + dropped)), 'bytes': it.end - start})
        return res

    def struct_text(self, d):
        s = self.src(d['file'])
        it = s.find_top('struct', d['struct'])
        body = s.text[s.toks[it.kw_tok].start:it.end]
        body = re.sub(r'\bpub\s+', '', body)
        derive = d.get('derive')
        self.log.append({'file': d['file'], 'item': 'struct ' + d['struct'], 'dropped': ['pub', 'derive(Debug..)']})
        return ('#[derive(%s)]\n' % derive if derive else '') + body

    def static_text(self, d):
        s = self.src(d['file'])
        it = s.find_top('static', d['static'])
        body = s.text[s.toks[it.kw_tok].start:it.end]
        body = re.sub(r'^static\b', 'const', body)
        dropped = ['pub', 'static->const']
        if '[&str;' in body:
            # the elided lifetime of a reference in a `static` IS 'static; a Verus const needs it spelled out
            body = body.replace('[&str;', "[&'static str;", 1)
            dropped.append("&str -> &'static str (the elided lifetime, spelled out)")
        self.log.append({'file': d['file'], 'item': 'static ' + d['static'], 'dropped': dropped})
        return body

    def assemble(self, template_text):
        lines = template_text.split('\n')
        out = []
        i = 0
        while i < len(lines):
            line = lines[i]
            st = line.strip()
            if st.startswith('//@EXTRACT'):
                d = _kv(st[len('//@EXTRACT'):])
                sections = {}
                cur = None
                i += 1
                while i < len(lines) and lines[i].strip() != '//@END':
                    s2 = lines[i].strip()
                    if s2.startswith('//@'):
                        cur = s2[3:].strip()
                        sections[cur] = ''
                    elif cur is not None:
                        sections[cur] += lines[i] + '\n'
                    i += 1
                if i >= len(lines):
                    raise rsscan.ScanError('unterminated //@EXTRACT')
                indent = line[:len(line) - len(line.lstrip())]
                out.append(indent + '// ---- extracted from %s %s::%s (verbatim body)' % (d['file'], d.get('impl', ''), d['fn']))
                out.append(indent + self.fn_text(d, sections))
                i += 1
                continue
            if st.startswith('//@STRUCT'):
                out.append(self.struct_text(_kv(st[len('//@STRUCT'):])))
                i += 1
                continue
            if st.startswith('//@STATIC'):
                out.append(self.static_text(_kv(st[len('//@STATIC'):])))
                i += 1
                continue
            out.append(line)
            i += 1
        return '\n'.join(out)


if __name__ == '__main__':
    import sys
    ex = Extraction(sys.argv[1])
    print(ex.assemble(open(sys.argv[2], encoding='utf-8').read()))
