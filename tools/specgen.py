"""Generate the two concrete forms of the spec library (see spec/calendar.rs header).

  python3 tools/specgen.py verus <out.rs> file...   -> one Verus file: prelude + spec files inside verus!{}
  python3 tools/specgen.py plain <out.rs> file...   -> plain Rust (Verus-only lines/blocks dropped)
"""
import re
import sys


def plain(text):
    out = []
    skip = False
    for line in text.split('\n'):
        s = line.strip()
        if s.startswith('//@{'):
            skip = True
            continue
        if s.startswith('//@}'):
            skip = False
            continue
        if skip:
            continue
        if s.endswith('//@'):
            continue
        line = re.sub(r'->\s*\((\w+)\s*:\s*([^()]+)\)', r'-> \2', line)
        out.append(line)
    return '\n'.join(out)


def verus_form(text):
    out = []
    for line in text.split('\n'):
        s = line.strip()
        if s.startswith('//@{') or s.startswith('//@}'):
            continue
        if s.endswith('//@'):
            line = line.rstrip()[:-3].rstrip()
        out.append(line)
    return '\n'.join(out)


def main():
    mode, out = sys.argv[1], sys.argv[2]
    files = sys.argv[3:]
    parts = []
    if mode == 'verus':
        parts.append('use vstd::prelude::*;\nverus! {\n')
        for f in files:
            parts.append('// ---- %s\n' % f)
            parts.append(verus_form(open(f, encoding='utf-8').read()))
        parts.append('\n} // verus!\nfn main() {}\n')
    else:
        parts.append('#![allow(dead_code, unused_parens, unused_variables)]\n')
        for f in files:
            if f.endswith('_v.rs'):
                continue
            parts.append('// ---- %s\n' % f)
            parts.append(plain(open(f, encoding='utf-8').read()))
    open(out, 'w', encoding='utf-8').write('\n'.join(parts))


if __name__ == '__main__':
    main()
