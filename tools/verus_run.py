"""Assemble and run Verus proof units."""
import json
import os
import re
import subprocess
import time

import extract
import specgen

VERIF = os.path.dirname(os.path.dirname(os.path.abspath(__file__)))


def spec_verus_text():
    """The spec library in Verus form (without the verus!{} wrapper), to be inlined in units."""
    d = os.path.join(VERIF, 'spec')
    files = sorted(os.listdir(d))
    parts = []
    # prelude first
    for f in files:
        if f.endswith('_v.rs'):
            parts.append(specgen.verus_form(open(os.path.join(d, f), encoding='utf-8').read()))
    for f in files:
        if f.endswith('.rs') and not f.endswith('_v.rs') and not f.endswith('_p.rs'):
            parts.append(specgen.verus_form(open(os.path.join(d, f), encoding='utf-8').read()))
    return '\n'.join(parts)


def build_unit(template_path, repo_root, out_path):
    text = open(template_path, encoding='utf-8').read()
    ex = extract.Extraction(repo_root)
    body = ex.assemble(text)
    body = re.sub(r'^[ \t]*//@SPECLIB[ \t]*$', lambda m: spec_verus_text(), body, flags=re.M)
    open(out_path, 'w', encoding='utf-8').write(body)
    return ex.log, body


def run_unit(path, timeout=600, rlimit=None):
    cmd = ['verus', path, '--output-json', '--time', '--multiple-errors', '10']
    if rlimit:
        cmd += ['--rlimit', str(rlimit)]
    t0 = time.time()
    try:
        p = subprocess.run(cmd, stdout=subprocess.PIPE, stderr=subprocess.PIPE, timeout=timeout, text=True, errors='replace')
    except subprocess.TimeoutExpired:
        return {'status': 'UNDECIDED', 'reason': 'verus wall timeout', 'wall': time.time() - t0, 'functions': [], 'stderr': ''}
    wall = time.time() - t0
    res = {'wall': wall, 'stderr': p.stderr, 'cmd': ' '.join(cmd)}
    try:
        d = json.loads(p.stdout)
    except Exception:
        res.update({'status': 'UNDECIDED', 'reason': 'verus produced no JSON (rc=%d): %s' % (p.returncode, p.stderr[-800:]), 'functions': []})
        return res
    vr = d.get('verification-results', {})
    funcs = []
    for mod in d.get('times-ms', {}).get('smt', {}).get('smt-run-module-times', []):
        for f in mod.get('function-breakdown', []):
            funcs.append({'function': f['function'], 'mode': f.get('mode:'), 'ms': f.get('time-micros', 0) / 1000.0, 'success': f.get('success')})
    res['functions'] = funcs
    res['verified'] = vr.get('verified', 0)
    res['errors'] = vr.get('errors', 0)
    res['smt_ms'] = d.get('times-ms', {}).get('smt', {}).get('total')
    if vr.get('encountered-vir-error') or (vr.get('encountered-error') and vr.get('errors', 0) == 0 and not vr.get('success')):
        res['status'] = 'UNDECIDED'
        res['reason'] = 'verus front-end error (unsupported construct / type error): ' + p.stderr[-1500:]
    elif vr.get('success') and vr.get('errors', 0) == 0:
        res['status'] = 'SUCCESS'
    else:
        # distinguish refutation from resource-out
        if re.search(r'Resource limit \(rlimit\) exceeded|rlimit', p.stderr) and not re.search(r'postcondition not satisfied|assertion failed|precondition not satisfied|invariant not satisfied|possible arithmetic|possible division|unwrap', p.stderr):
            res['status'] = 'UNDECIDED'
            res['reason'] = 'rlimit exceeded'
        else:
            res['status'] = 'FAILED'
        res['failed_functions'] = [f['function'] for f in funcs if f.get('success') is False]
        res['errors_text'] = error_summaries(p.stderr)
    return res


def error_summaries(stderr):
    out = []
    for m in re.finditer(r'^error: (.*)\n\s*--> ([^\n]*)', stderr, re.M):
        out.append('%s @ %s' % (m.group(1), m.group(2).strip()))
    return out[:20]
