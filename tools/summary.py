#!/usr/bin/env python3
"""Regenerate COVERAGE.md (per-property obligations by class) from contracts/registry.py."""
import os, sys
HERE = os.path.dirname(os.path.abspath(__file__)); VERIF = os.path.dirname(HERE)
sys.path.insert(0, os.path.join(VERIF, 'contracts'))
import registry
out = ['# Obligations per property (generated from contracts/registry.py by tools/summary.py)', '',
       'K = Kani on the real function compiled in place; V = Verus on the function body extracted verbatim (or a lemma);',
       'S = source scan; L = leaf contract executed natively (bounded stand-in, never counted as discharged).', '']
for pid in sorted(registry.REG):
    r = registry.REG[pid]
    out += ['## %s  (level claimed: %s)' % (pid, r['level']), '', r['level_text'], '', '*Assumed / trusted:* ' + r['level_note'], '']
    out.append('| class | obligation | function(s) | clause | tier |')
    out.append('|---|---|---|---|---|')
    for k in r.get('K', []):
        tier = 'thorough only' if k.get('thorough_only') else ('quick: slice subset, thorough: all' if isinstance(k.get('quick'), dict) else 'quick+thorough')
        out.append('| K | %s%s | %s | %s | %s |' % (k['id'], ' (family)' if k.get('prefix') else (' (sliced)' if k.get('sliced') else ''), k.get('fn', ''), k.get('clause', ''), tier))
    for s in r.get('S', []):
        out.append('| S | %s | LunarMonth::from_ym | see tools/scans.py | quick+thorough |' % s)
    for v in r.get('V', []):
        out.append('| V | %s | %s | %s | quick+thorough%s |' % (v['id'], v['template'], v.get('clause', ''), ' + must-fail twin' if v.get('twin') else ''))
    for l in r.get('L', []):
        out.append('| L | %s | leaf check `%s` over %s | %s | %s |' % (l['id'], l['check'], l.get('domain', ''), l.get('clause', ''), 'exhaustive' if l.get('exhaustive') else 'bounded / seeded'))
    out.append('')
open(os.path.join(VERIF, 'COVERAGE.md'), 'w').write('\n'.join(out))
print('COVERAGE.md written')
