#!/usr/bin/env python3
"""Apply a seeded change to /repo, run the given properties' checks, undo the change, record the verdicts.
usage: mutest.py <seedId> <prop>[,<prop>..] [--tier quick]"""
import json, os, subprocess, sys, time
VERIF = os.path.dirname(os.path.dirname(os.path.abspath(__file__)))
sid = sys.argv[1]
props = sys.argv[2].split(',')
tier = 'quick'
if '--tier' in sys.argv:
    tier = sys.argv[sys.argv.index('--tier') + 1]
patch = os.path.join(VERIF, 'seeded', sid, 'patch.diff')
assert subprocess.run(['git', '-C', '/repo', 'status', '--porcelain', '--untracked-files=no'], capture_output=True, text=True).stdout.strip() == '', '/repo not clean'
subprocess.check_call(['git', '-C', '/repo', 'apply', patch])
res = {}
try:
    for p in props:
        t0 = time.time()
        env = dict(os.environ, VERIF_NO_PLAYBACK='1', VERIF_EVIDENCE_DIR='/verif/.cache/evidence-mutation')
        r = subprocess.run([sys.executable, os.path.join(VERIF, 'tools', 'run_check.py'), p, '--tier', tier], capture_output=True, text=True, env=env, cwd=VERIF)
        lines = [l for l in r.stdout.split('\n') if l.startswith('VIOLATION') or l.startswith('UNDECIDED')]
        res[p] = {'rc': r.returncode, 'wall_s': round(time.time() - t0), 'lines': lines[:6]}
        print(sid, p, 'rc=%d' % r.returncode, '%ds' % (time.time() - t0), lines[:2])
finally:
    subprocess.check_call(['git', '-C', '/repo', 'checkout', '--', '.'])
mp = os.path.join(VERIF, 'seeded', sid, 'meta.json')
m = json.load(open(mp))
d = m.get('check_results') or {}
d.update({p: dict(v, tier=tier) for p, v in res.items()})
m['check_results'] = d
m['detected_by'] = sorted(p for p, v in d.items() if v['rc'] == 1)
json.dump(m, open(mp, 'w'), indent=1, ensure_ascii=False)
