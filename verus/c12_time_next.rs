// C12 (V): SolarTime::next extracted verbatim: the second/minute/hour/day carries. With SolarDay::next's
// contract (C01/K5: the day number moves by exactly td) the absolute second moves by exactly n, for every
// instant and every |n| <= 4*10^11 with the result in range (crossing days, months, years and the 1582 gap
// is inherited from the day-level contract).
use vstd::prelude::*;
verus! {
global size_of usize == 8;

#[verifier::external_body]
pub struct SolarDay { _p: u8 }
impl Clone for SolarDay { #[verifier::external_body] fn clone(&self) -> Self { unimplemented!() } }
impl Copy for SolarDay {}

pub uninterp spec fn jdn_of(y: int, m: int, d: int) -> int;

impl SolarDay {
    pub uninterp spec fn y(&self) -> int;
    pub uninterp spec fn mo(&self) -> int;
    pub uninterp spec fn dd(&self) -> int;
    pub open spec fn jdn(&self) -> int { jdn_of(self.y(), self.mo(), self.dd()) }
    // K (C01/K5): stepping by n days moves the day number by exactly n (result in range)
    #[verifier::external_body]
    fn next(&self, n: isize) -> (r: SolarDay)
        requires 1721424 <= self.jdn() + n <= 5373484,
        ensures r.jdn() == self.jdn() + n,
    { unimplemented!() }
    // K (C01/K4): difference of day numbers
    #[verifier::external_body]
    fn subtract(&self, target: SolarDay) -> (r: isize)
        ensures r == self.jdn() - target.jdn(),
    { unimplemented!() }
    #[verifier::external_body]
    fn get_year(&self) -> (r: isize) ensures r == self.y() { unimplemented!() }
    #[verifier::external_body]
    fn get_month(&self) -> (r: usize) ensures r == self.mo() { unimplemented!() }
    #[verifier::external_body]
    fn get_day(&self) -> (r: usize) ensures r == self.dd() { unimplemented!() }
}

//@STRUCT file=src/tyme/solar.rs struct=SolarTime derive="Clone, Copy"

impl SolarTime {
    spec fn abs(&self) -> int { 86400 * self.day.jdn() + 3600 * self.hour + 60 * self.minute + self.second }
    spec fn wf(&self) -> bool { self.hour < 24 && self.minute < 60 && self.second < 60 && 1721424 <= self.day.jdn() <= 5373484 }

    // K (c12_k_time_accept + C01/K2): built from the fields of an existing day and a valid clock reading
    #[verifier::external_body]
    fn from_ymd_hms(year: isize, month: usize, day: usize, hour: usize, minute: usize, second: usize) -> (r: Self)
        requires hour < 24, minute < 60, second < 60,
        ensures r.day.jdn() == jdn_of(year as int, month as int, day as int), r.hour == hour, r.minute == minute, r.second == second,
    { unimplemented!() }

    //@EXTRACT file=src/tyme/solar.rs impl="impl Tyme for SolarTime" fn=next
    //@sig
        requires self.wf(), -400000000000 <= n <= 400000000000,
                 86400 * 1721424 <= self.abs() + n < 86400 * 5373485,
        ensures r.wf(), r.abs() == self.abs() + n,
    //@END

    //@EXTRACT file=src/tyme/solar.rs impl="impl SolarTime" fn=get_solar_day
    //@sig
        ensures r.jdn() == self.day.jdn(),
    //@END
    //@EXTRACT file=src/tyme/solar.rs impl="impl SolarTime" fn=get_hour
    //@sig
        ensures r == self.hour,
    //@END
    //@EXTRACT file=src/tyme/solar.rs impl="impl SolarTime" fn=get_minute
    //@sig
        ensures r == self.minute,
    //@END
    //@EXTRACT file=src/tyme/solar.rs impl="impl SolarTime" fn=get_second
    //@sig
        ensures r == self.second,
    //@END

    // the difference of two instants: extracted verbatim; SolarDay::subtract by its contract (C01/K4)
    //@EXTRACT file=src/tyme/solar.rs impl="impl SolarTime" fn=subtract
    //@sig
        requires self.wf(), target.wf(),
        ensures r == self.abs() - target.abs(),
    //@END
}

} // verus!
fn main() {}
