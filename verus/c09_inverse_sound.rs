// C09 (V): EightChar::get_solar_times extracted verbatim from src/tyme/eightchar/mod.rs - the SOUNDNESS clause of the inverse
// search: every instant it returns has exactly the sought eight characters and lies in a year >= start_year, for every
// range and every sought value (completeness - at least one instant per double-hour - stays an execution check:
// c09_inverse). The proof rests on the function's own final validation and nothing else: all calendar callees are
// arbitrary (external_body, no postconditions beyond identity bookkeeping), and the one statement that computes
// through f64 (aligning the first candidate year to the 60-year cycle) is replaced by an arbitrary value (rule E11).
use vstd::prelude::*;
verus! {
global size_of usize == 8;

#[verifier::external_body]
fn verif_havoc_isize() -> (r: isize) { unimplemented!() }

/// the eight characters of the instant with identity `tid`, as a key that `==` on EightChar compares
pub uninterp spec fn chars_of(tid: int) -> int;

#[verifier::external_body]
pub struct SixtyCycle { _p: u8 }
#[verifier::external_body]
pub struct EarthBranch { _p: u8 }
#[verifier::external_body]
pub struct HeavenStem { _p: u8 }
#[verifier::external_body]
pub struct SolarTerm { _p: u8 }
#[verifier::external_body]
pub struct JulianDay { _p: u8 }
#[verifier::external_body]
pub struct SolarDay { _p: u8 }
impl Clone for SolarDay { #[verifier::external_body] fn clone(&self) -> Self { unimplemented!() } }
impl Copy for SolarDay {}
#[verifier::external_body]
pub struct SolarTime { _p: u8 }
impl Clone for SolarTime { #[verifier::external_body] fn clone(&self) -> (r: Self) ensures r == *self { unimplemented!() } }
impl Copy for SolarTime {}
#[verifier::external_body]
pub struct LunarDay { _p: u8 }
#[verifier::external_body]
pub struct LunarHour { _p: u8 }

impl SixtyCycle {
    #[verifier::external_body]
    fn get_earth_branch(&self) -> (r: EarthBranch) { unimplemented!() }
    #[verifier::external_body]
    fn get_heaven_stem(&self) -> (r: HeavenStem) { unimplemented!() }
    #[verifier::external_body]
    fn next(&self, n: isize) -> (r: SixtyCycle) { unimplemented!() }
    #[verifier::external_body]
    fn get_index(&self) -> (r: usize) ensures r < 60 { unimplemented!() }
}
impl EarthBranch {
    #[verifier::external_body]
    fn next(&self, n: isize) -> (r: EarthBranch) { unimplemented!() }
    #[verifier::external_body]
    fn get_index(&self) -> (r: usize) ensures r < 12 { unimplemented!() }
}
impl HeavenStem {
    #[verifier::external_body]
    fn from_index(index: isize) -> (r: HeavenStem) { unimplemented!() }
    #[verifier::external_body]
    fn get_index(&self) -> (r: usize) ensures r < 10 { unimplemented!() }
}
impl PartialEq for HeavenStem {
    #[verifier::external_body]
    fn eq(&self, other: &Self) -> (r: bool) { unimplemented!() }
}
impl SolarTerm {
    #[verifier::external_body]
    fn from_index(year: isize, index: isize) -> (r: SolarTerm) { unimplemented!() }
    #[verifier::external_body]
    fn next(&self, n: isize) -> (r: SolarTerm) { unimplemented!() }
    #[verifier::external_body]
    fn get_julian_day(&self) -> (r: JulianDay) { unimplemented!() }
}
impl JulianDay {
    #[verifier::external_body]
    fn get_solar_time(&self) -> (r: SolarTime) { unimplemented!() }
}
impl SolarDay {
    #[verifier::external_body]
    fn get_lunar_day(&self) -> (r: LunarDay) { unimplemented!() }
    #[verifier::external_body]
    fn next(&self, n: isize) -> (r: SolarDay) { unimplemented!() }
    #[verifier::external_body]
    fn get_year(&self) -> (r: isize) { unimplemented!() }
    #[verifier::external_body]
    fn get_month(&self) -> (r: usize) { unimplemented!() }
    #[verifier::external_body]
    fn get_day(&self) -> (r: usize) { unimplemented!() }
}
impl LunarDay {
    #[verifier::external_body]
    fn get_sixty_cycle(&self) -> (r: SixtyCycle) { unimplemented!() }
}
impl SolarTime {
    pub uninterp spec fn tid(&self) -> int;
    pub uninterp spec fn y(&self) -> int;
    #[verifier::external_body]
    fn from_ymd_hms(year: isize, month: usize, day: usize, hour: usize, minute: usize, second: usize) -> (r: SolarTime) { unimplemented!() }
    #[verifier::external_body]
    fn get_year(&self) -> (r: isize) ensures r == self.y() { unimplemented!() }
    #[verifier::external_body]
    fn get_hour(&self) -> (r: usize) { unimplemented!() }
    #[verifier::external_body]
    fn get_minute(&self) -> (r: usize) { unimplemented!() }
    #[verifier::external_body]
    fn get_second(&self) -> (r: usize) { unimplemented!() }
    #[verifier::external_body]
    fn get_solar_day(&self) -> (r: SolarDay) { unimplemented!() }
    #[verifier::external_body]
    fn get_lunar_hour(&self) -> (r: LunarHour) ensures r.tid() == self.tid() { unimplemented!() }
}
impl LunarHour {
    pub uninterp spec fn tid(&self) -> int;
    #[verifier::external_body]
    fn get_eight_char(&self) -> (r: EightChar) ensures r.key() == chars_of(self.tid()) { unimplemented!() }
}

//@STRUCT file=src/tyme/eightchar/mod.rs struct=EightChar

impl PartialEq for EightChar {
    // the real impl compares the four pillar names
    #[verifier::external_body]
    fn eq(&self, other: &Self) -> (r: bool) ensures r == (self.key() == other.key()) { unimplemented!() }
}

impl EightChar {
    pub uninterp spec fn key(&self) -> int;

    //@EXTRACT file=src/tyme/eightchar/mod.rs impl="impl EightChar" fn=get_solar_times loops=2 havoc_f64=1
    //@sig
        requires -1000000 <= start_year <= 1000000, -1000000 <= end_year <= 1000000,
        ensures forall|i: int| 0 <= i < r@.len() ==> chars_of((#[trigger] r@[i]).tid()) == self.key() && r@[i].y() >= start_year,
    //@loop 0
        invariant
            -1000000 <= end_year <= 1000000, -1000000 <= start_year <= 1000000, 0 <= m <= 22,
            forall|i: int| 0 <= i < l@.len() ==> chars_of((#[trigger] l@[i]).tid()) == self.key() && l@[i].y() >= start_year,
        decreases end_year - y + 60,
    //@loop 1
        invariant
            -1000000 <= start_year <= 1000000,
            forall|i: int| 0 <= i < l@.len() ==> chars_of((#[trigger] l@[i]).tid()) == self.key() && l@[i].y() >= start_year,
    //@END
}

} // verus!
fn main() {}
