// C06 (V): SolarDay::get_term_day and SolarTime::get_term extracted verbatim from src/tyme/solar.rs.
// Abstraction: k = 24*year + index is the absolute term number; TD(k) is the day number of term k's
// calendar day, TI(k) the absolute second of its instant. Both are UNINTERPRETED: only the leaf facts
// L-TD / L-TI (strictly increasing) are used, so the proof holds for any monotone term table.
//   get_term_day: returns the unique k with TD(k) <= jdn(self) < TD(k+1) and day index jdn - TD(k)
//   get_term:     returns the unique k with TI(k) <= t < TI(k+1)
// Contracts of callees (external_body): from_index/next/get_year/get_index index arithmetic (K, C06/C11),
// SolarDay::is_before/subtract (K, C01), SolarTime::is_before (K, C12), term day/instant (L-TD, L-TI).
use vstd::prelude::*;
verus! {

pub spec const K_MIN: int = 25int;        // first term whose day is a supported civil date (Lesser Cold of year 1)
pub spec const K_MAX: int = 240000int;    // winter solstice of December 9999 = (year 10000, index 0)

pub uninterp spec fn TD(k: int) -> int;
pub uninterp spec fn TI(k: int) -> int;

// L-TD / L-TI (leaf contracts, checked by exhaustive execution over all 239,976 terms)
#[verifier::external_body]
pub proof fn leaf_td_increasing(k: int)
    requires K_MIN <= k < K_MAX,
    ensures TD(k) < TD(k + 1), TI(k) < TI(k + 1),
{ unimplemented!() }

pub proof fn lemma_td_mono(a: int, b: int)
    requires K_MIN <= a <= b <= K_MAX,
    ensures TD(a) <= TD(b), TI(a) <= TI(b), a < b ==> TD(a) < TD(b) && TI(a) < TI(b),
    decreases b - a,
{
    if a < b { lemma_td_mono(a, b - 1); leaf_td_increasing(b - 1); }
}

#[verifier::external_body]
pub struct SolarDay { _p: u8 }
impl Clone for SolarDay { #[verifier::external_body] fn clone(&self) -> Self { unimplemented!() } }
impl Copy for SolarDay {}
#[verifier::external_body]
pub struct SolarTime { _p: u8 }
impl Clone for SolarTime { #[verifier::external_body] fn clone(&self) -> Self { unimplemented!() } }
impl Copy for SolarTime {}
#[verifier::external_body]
pub struct SolarTerm { _p: u8 }
#[verifier::external_body]
pub struct JulianDay { _p: u8 }
#[verifier::external_body]
pub struct SolarTermDay { _p: u8 }

impl JulianDay {
    pub uninterp spec fn src_k(&self) -> int;
    // L-TD: the calendar day of term k (a valid civil date for K_MIN <= k <= K_MAX)
    #[verifier::external_body]
    fn get_solar_day(&self) -> (r: SolarDay)
        requires K_MIN <= self.src_k() <= K_MAX,
        ensures r.jdn() == TD(self.src_k()),
    { unimplemented!() }
    // L-TI
    #[verifier::external_body]
    fn get_solar_time(&self) -> (r: SolarTime)
        requires K_MIN <= self.src_k() <= K_MAX,
        ensures r.sec() == TI(self.src_k()),
    { unimplemented!() }
}

impl SolarTerm {
    pub uninterp spec fn k(&self) -> int;
    // K (C06): year/index carry of from_index, for non-negative totals
    #[verifier::external_body]
    fn from_index(year: isize, index: isize) -> (r: Self)
        requires 0 <= year <= 10000, -100000 <= index <= 100000, 24 * year + index >= 0,
        ensures r.k() == 24 * year + index,
    { unimplemented!() }
    #[verifier::external_body]
    fn next(&self, n: isize) -> (r: Self)
        requires 0 <= self.k() <= 240100, -100000 <= n <= 100000, self.k() + n >= 0,
        ensures r.k() == self.k() + n,
    { unimplemented!() }
    #[verifier::external_body]
    fn get_year(&self) -> (r: isize)
        requires self.k() >= 0,
        ensures r == self.k() / 24,
    { unimplemented!() }
    #[verifier::external_body]
    fn get_index(&self) -> (r: usize)
        requires self.k() >= 0,
        ensures r == self.k() % 24,
    { unimplemented!() }
    #[verifier::external_body]
    fn get_julian_day(&self) -> (r: JulianDay)
        ensures r.src_k() == self.k(),
    { unimplemented!() }
    // L-TD (range end): the term instant lies at/after 10000-01-01 00:00 exactly for the terms after K_MAX
    // (f64 comparison on the astronomy, checked by execution for every term incl. 240001..240024)
    #[verifier::external_body]
    fn is_beyond_range(&self) -> (r: bool)
        ensures r == (self.k() > K_MAX),
    { unimplemented!() }
}

impl SolarTermDay {
    pub uninterp spec fn term_k(&self) -> int;
    pub uninterp spec fn day_index(&self) -> int;
    #[verifier::external_body]
    fn new(solar_term: SolarTerm, day_index: usize) -> (r: Self)
        ensures r.term_k() == solar_term.k(), r.day_index() == day_index,
    { unimplemented!() }
}

impl SolarDay {
    pub uninterp spec fn jdn(&self) -> int;
    pub uninterp spec fn y(&self) -> int;
    pub uninterp spec fn mo(&self) -> int;
    #[verifier::external_body]
    fn get_year(&self) -> (r: isize) ensures r == self.y(), 1 <= r <= 9999 { unimplemented!() }
    #[verifier::external_body]
    fn get_month(&self) -> (r: usize) ensures r == self.mo(), 1 <= r <= 12 { unimplemented!() }
    // K (C01/K6 + V3): before <=> smaller day number
    #[verifier::external_body]
    fn is_before(&self, target: SolarDay) -> (r: bool) ensures r == (self.jdn() < target.jdn()) { unimplemented!() }
    #[verifier::external_body]
    fn is_after(&self, target: SolarDay) -> (r: bool) ensures r == (self.jdn() > target.jdn()) { unimplemented!() }
    // K (C01/K4)
    #[verifier::external_body]
    fn subtract(&self, target: SolarDay) -> (r: isize)
        ensures r == self.jdn() - target.jdn(),
    { unimplemented!() }

    //@EXTRACT file=src/tyme/solar.rs impl="impl SolarDay" fn=get_term_day loops=2
    //@sig
        requires
            self.jdn() >= TD(K_MIN),                 // excludes 0001-01-01..05 (known finding: their term day lies in year 0)
            self.jdn() - TD(K_MIN) < 4000000,
        ensures
            K_MIN <= r.term_k() <= K_MAX,
            TD(r.term_k()) <= self.jdn(),
            r.term_k() < K_MAX ==> self.jdn() < TD(r.term_k() + 1),
            r.day_index() == self.jdn() - TD(r.term_k()),
    //@loop 0
        invariant
            K_MIN <= term.k() <= K_MAX, day.jdn() == TD(term.k()), self.jdn() >= TD(K_MIN),
        decreases term.k(),
    //@loop_start 0
        proof { lemma_td_mono(K_MIN, term.k()); }
    //@loop 1
        invariant
            K_MIN <= term.k() <= K_MAX, day.jdn() == TD(term.k()), TD(term.k()) <= self.jdn(),
        ensures
            K_MIN <= term.k() <= K_MAX, day.jdn() == TD(term.k()), TD(term.k()) <= self.jdn(),
            term.k() < K_MAX ==> self.jdn() < TD(term.k() + 1),
        decreases K_MAX - term.k(),
    //@END
}

impl SolarTime {
    pub uninterp spec fn sec(&self) -> int;
    pub uninterp spec fn y(&self) -> int;
    pub uninterp spec fn mo(&self) -> int;
    #[verifier::external_body]
    fn get_year(&self) -> (r: isize) ensures r == self.y(), 1 <= r <= 9999 { unimplemented!() }
    #[verifier::external_body]
    fn get_month(&self) -> (r: usize) ensures r == self.mo(), 1 <= r <= 12 { unimplemented!() }
    // K (C12): before <=> earlier absolute second
    #[verifier::external_body]
    fn is_before(&self, target: SolarTime) -> (r: bool) ensures r == (self.sec() < target.sec()) { unimplemented!() }
    #[verifier::external_body]
    fn is_after(&self, target: SolarTime) -> (r: bool) ensures r == (self.sec() > target.sec()) { unimplemented!() }

    //@EXTRACT file=src/tyme/solar.rs impl="impl SolarTime" fn=get_term loops=2
    //@sig
        requires self.sec() >= TI(K_MIN),
        ensures
            K_MIN <= r.k() <= K_MAX,
            TI(r.k()) <= self.sec(),
            r.k() < K_MAX ==> self.sec() < TI(r.k() + 1),
    //@loop 0
        invariant K_MIN <= term.k() <= K_MAX, self.sec() >= TI(K_MIN),
        decreases term.k(),
    //@loop_start 0
        proof { lemma_td_mono(K_MIN, term.k()); }
    //@loop 1
        invariant K_MIN <= term.k() <= K_MAX, TI(term.k()) <= self.sec(),
        ensures K_MIN <= term.k() <= K_MAX, TI(term.k()) <= self.sec(), term.k() < K_MAX ==> self.sec() < TI(term.k() + 1),
        decreases K_MAX - term.k(),
    //@END
}

// uniqueness: there is exactly one k with TD(k) <= n < TD(k+1)  (so "the latest term on or before")
pub proof fn lemma_unique_interval(n: int, k1: int, k2: int)
    requires K_MIN <= k1 < K_MAX, K_MIN <= k2 < K_MAX, TD(k1) <= n < TD(k1 + 1), TD(k2) <= n < TD(k2 + 1),
    ensures k1 == k2,
{
    if k1 < k2 { lemma_td_mono(k1 + 1, k2); }
    if k2 < k1 { lemma_td_mono(k2 + 1, k1); }
}

} // verus!
fn main() {}
