// C16 (V): decade fortunes and yearly fortunes, extracted verbatim from src/tyme/eightchar/mod.rs, over an abstract
// child limit (birth year, year the limit ends, direction, month and hour pillar of the eight characters):
//   decade fortune i: month pillar stepped by +(i+1) when luck runs forward, -(i+1) backward; start age
//     (end year - birth year + 1) + 10 i, end age + 9; it starts in the year the limit ends + 10 i and ends 9 years later;
//     stepping by n gives decade fortune i + n; its first yearly fortune is yearly fortune 10 i
//   yearly fortune j: age (end year - birth year + 1) + j, pillar year end year + j, hour pillar stepped by +-age
// Callee contracts (external_body): ChildLimit getters (the child-limit unit c16_child_limit and the leaf run),
// SixtyCycle::next / SixtyCycleYear::next (K: generated cycle harness c11_cycle_SixtyCycle, c11_k_sixty_year_next).
use vstd::prelude::*;
verus! {
global size_of usize == 8;

#[verifier::external_body]
pub struct SixtyCycle { _p: u8 }
impl SixtyCycle {
    pub uninterp spec fn idx(&self) -> int;
    #[verifier::external_body]
    fn next(&self, n: isize) -> (r: Self) ensures r.idx() == (self.idx() + n) % 60 { unimplemented!() }
}
#[verifier::external_body]
pub struct SixtyCycleYear { _p: u8 }
impl SixtyCycleYear {
    pub uninterp spec fn y(&self) -> int;
    #[verifier::external_body]
    fn get_year(&self) -> (r: isize) ensures r == self.y(), -1 <= r <= 9999 { unimplemented!() }
    #[verifier::external_body]
    fn next(&self, n: isize) -> (r: Self) requires -1 <= self.y() + n <= 9999, ensures r.y() == self.y() + n { unimplemented!() }
}
#[verifier::external_body]
pub struct EightChar { _p: u8 }
impl EightChar {
    pub uninterp spec fn month_idx(&self) -> int;
    pub uninterp spec fn hour_idx(&self) -> int;
    #[verifier::external_body]
    fn get_month(&self) -> (r: SixtyCycle) ensures r.idx() == self.month_idx() { unimplemented!() }
    #[verifier::external_body]
    fn get_hour(&self) -> (r: SixtyCycle) ensures r.idx() == self.hour_idx() { unimplemented!() }
}
#[verifier::external_body]
pub struct ChildLimit { _p: u8 }
impl Clone for ChildLimit {
    #[verifier::external_body]
    fn clone(&self) -> (r: Self) ensures r == *self { unimplemented!() }
}
impl ChildLimit {
    pub uninterp spec fn birth_year(&self) -> int;
    pub uninterp spec fn end_year(&self) -> int;
    pub uninterp spec fn forward(&self) -> bool;
    pub uninterp spec fn month_idx(&self) -> int;
    pub uninterp spec fn hour_idx(&self) -> int;
    pub open spec fn wf(&self) -> bool { 1 <= self.birth_year() <= self.end_year() <= 9999 && self.end_year() - self.birth_year() <= 12 }
    #[verifier::external_body]
    fn get_start_sixty_cycle_year(&self) -> (r: SixtyCycleYear) ensures r.y() == self.birth_year() { unimplemented!() }
    #[verifier::external_body]
    fn get_end_sixty_cycle_year(&self) -> (r: SixtyCycleYear) ensures r.y() == self.end_year() { unimplemented!() }
    #[verifier::external_body]
    fn is_forward(&self) -> (r: bool) ensures r == self.forward() { unimplemented!() }
    #[verifier::external_body]
    fn get_eight_char(&self) -> (r: EightChar) ensures r.month_idx() == self.month_idx(), r.hour_idx() == self.hour_idx() { unimplemented!() }
}

//@STRUCT file=src/tyme/eightchar/mod.rs struct=DecadeFortune
//@STRUCT file=src/tyme/eightchar/mod.rs struct=Fortune

impl Fortune {
    //@EXTRACT file=src/tyme/eightchar/mod.rs impl="impl Fortune" fn=new
    //@sig
        ensures r.child_limit == child_limit, r.index == index,
    //@END
    //@EXTRACT file=src/tyme/eightchar/mod.rs impl="impl Fortune" fn=from_child_limit
    //@sig
        ensures r.child_limit == child_limit, r.index == index,
    //@END
    //@EXTRACT file=src/tyme/eightchar/mod.rs impl="impl Fortune" fn=get_child_limit
    //@sig
        ensures r == self.child_limit,
    //@END
    //@EXTRACT file=src/tyme/eightchar/mod.rs impl="impl Fortune" fn=get_index
    //@sig
        ensures r == self.index,
    //@END
    //@EXTRACT file=src/tyme/eightchar/mod.rs impl="impl Fortune" fn=get_age
    //@sig
        requires self.child_limit.wf(), -100000 <= self.index <= 100000,
        ensures r == self.child_limit.end_year() - self.child_limit.birth_year() + 1 + self.index,
    //@END
    //@EXTRACT file=src/tyme/eightchar/mod.rs impl="impl Fortune" fn=get_sixty_cycle_year
    //@sig
        requires self.child_limit.wf(), -1 <= self.child_limit.end_year() + self.index <= 9999,
        ensures r.y() == self.child_limit.end_year() + self.index,
    //@END
    //@EXTRACT file=src/tyme/eightchar/mod.rs impl="impl Fortune" fn=get_sixty_cycle
    //@sig
        requires self.child_limit.wf(), -100000 <= self.index <= 100000,
        ensures ({ let age = self.child_limit.end_year() - self.child_limit.birth_year() + 1 + self.index;
                   r.idx() == (self.child_limit.hour_idx() + (if self.child_limit.forward() { age } else { -age })) % 60 }),
    //@END
    //@EXTRACT file=src/tyme/eightchar/mod.rs impl="impl Tyme for Fortune" fn=next
    //@sig
        requires -100000 <= self.index <= 100000, -100000 <= n <= 100000,
        ensures r.child_limit == self.child_limit, r.index == self.index + n,
    //@END
}

impl DecadeFortune {
    //@EXTRACT file=src/tyme/eightchar/mod.rs impl="impl DecadeFortune" fn=new
    //@sig
        ensures r.child_limit == child_limit, r.index == index,
    //@END
    //@EXTRACT file=src/tyme/eightchar/mod.rs impl="impl DecadeFortune" fn=get_child_limit
    //@sig
        ensures r == self.child_limit,
    //@END
    //@EXTRACT file=src/tyme/eightchar/mod.rs impl="impl DecadeFortune" fn=get_start_age
    //@sig
        requires self.child_limit.wf(), -10000 <= self.index <= 10000,
        ensures r == self.child_limit.end_year() - self.child_limit.birth_year() + 1 + 10 * self.index,
    //@END
    //@EXTRACT file=src/tyme/eightchar/mod.rs impl="impl DecadeFortune" fn=get_end_age
    //@sig
        requires self.child_limit.wf(), -10000 <= self.index <= 10000,
        ensures r == self.child_limit.end_year() - self.child_limit.birth_year() + 1 + 10 * self.index + 9,
    //@END
    //@EXTRACT file=src/tyme/eightchar/mod.rs impl="impl DecadeFortune" fn=get_start_sixty_cycle_year
    //@sig
        requires self.child_limit.wf(), -10000 <= self.index <= 10000, -1 <= self.child_limit.end_year() + 10 * self.index <= 9999,
        ensures r.y() == self.child_limit.end_year() + 10 * self.index,
    //@END
    //@EXTRACT file=src/tyme/eightchar/mod.rs impl="impl DecadeFortune" fn=get_end_sixty_cycle_year
    //@sig
        requires self.child_limit.wf(), -10000 <= self.index <= 10000, -1 <= self.child_limit.end_year() + 10 * self.index, self.child_limit.end_year() + 10 * self.index + 9 <= 9999,
        ensures r.y() == self.child_limit.end_year() + 10 * self.index + 9,
    //@END
    //@EXTRACT file=src/tyme/eightchar/mod.rs impl="impl DecadeFortune" fn=get_sixty_cycle
    //@sig
        requires -10000 <= self.index <= 10000,
        ensures r.idx() == (self.child_limit.month_idx() + (if self.child_limit.forward() { self.index + 1 } else { -(self.index + 1) })) % 60,
    //@END
    //@EXTRACT file=src/tyme/eightchar/mod.rs impl="impl DecadeFortune" fn=get_start_fortune
    //@sig
        requires -10000 <= self.index <= 10000,
        ensures r.child_limit == self.child_limit, r.index == 10 * self.index,
    //@END
    //@EXTRACT file=src/tyme/eightchar/mod.rs impl="impl Tyme for DecadeFortune" fn=next
    //@sig
        requires -10000 <= self.index <= 10000, -10000 <= n <= 10000,
        ensures r.child_limit == self.child_limit, r.index == self.index + n,
    //@END
}

} // verus!
fn main() {}
