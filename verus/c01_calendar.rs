// C01 / V: the spec library is proved equal to its mathematical twins (//@SPECLIB below), and the
// lemmas that lift the per-function Kani contracts to the property statement:
//   V1  successor: every valid date except 9999-12-31 has a valid successor whose day number is +1
//       (month ends, leap days, year ends, 1582-10-04 -> 1582-10-15)
//   V2  jdn is a bijection from valid dates onto [1721424, 5373484]; there are 3,652,061 valid dates
//   V3  lexicographic order on (y,m,d) <=> order of day numbers
//   V4  month / year lengths are day-number differences
// With K1 (date -> n-0.5) and K3 (n-0.5 -> valid date with jdn n): date -> day count -> date is the
// identity (injectivity), and every day number in range maps back to the date it came from.
use vstd::prelude::*;
verus! {
//@SPECLIB

pub open spec fn m_succ(y: int, m: int, d: int) -> (int, int, int) {
    if y == 1582 && m == 10 && d == 4 { (1582int, 10int, 15int) }
    else if d < m_std_len(y, m) { (y, m, d + 1) }
    else if m < 12 { (y, m + 1, 1int) }
    else { (y + 1, 1int, 1int) }
}

pub open spec fn m_lex(y: int, m: int, d: int) -> int { y * 10000 + m * 100 + d }

pub const JDN_MIN: i64 = 1721424;
pub const JDN_MAX: i64 = 5373484;

pub proof fn lemma_cum_values()
    ensures m_cum(1) == 0, m_cum(2) == 31, m_cum(3) == 59, m_cum(4) == 90, m_cum(5) == 120, m_cum(6) == 151, m_cum(7) == 181,
            m_cum(8) == 212, m_cum(9) == 243, m_cum(10) == 273, m_cum(11) == 304, m_cum(12) == 334, m_cum(13) == 365,
{
    reveal_with_fuel(m_cum, 14);
}

// V1
pub proof fn lemma_succ(y: int, m: int, d: int)
    requires m_valid_date(y, m, d), !(y == 9999 && m == 12 && d == 31),
    ensures ({ let s = m_succ(y, m, d); m_valid_date(s.0, s.1, s.2) && m_jdn(s.0, s.1, s.2) == m_jdn(y, m, d) + 1 && m_lex(s.0, s.1, s.2) > m_lex(y, m, d) }),
{
    lemma_cum_values();
}

pub proof fn lemma_endpoints()
    ensures m_jdn(1, 1, 1) == 1721424, m_jdn(9999, 12, 31) == 5373484, m_jdn(1582, 10, 4) == 2299160, m_jdn(1582, 10, 15) == 2299161,
            m_jdn(2000, 1, 1) == 2451545, 5373484 - 1721424 + 1 == 3652061,
{
    lemma_cum_values();
}

// day numbers stay inside their year, and years abut
pub proof fn lemma_year_bounds(y: int, m: int, d: int)
    requires m_valid_date(y, m, d),
    ensures m_jdn(y, 1, 1) <= m_jdn(y, m, d) <= m_jdn(y, 12, 31),
            y < 9999 ==> m_jdn(y + 1, 1, 1) == m_jdn(y, 12, 31) + 1,
{
    lemma_cum_values();
}

pub proof fn lemma_year_start_monotone(y1: int, y2: int)
    requires 1 <= y1 < y2 <= 9999,
    ensures m_jdn(y1, 12, 31) < m_jdn(y2, 1, 1),
    decreases y2 - y1,
{
    lemma_cum_values();
    if y2 == y1 + 1 {
        lemma_year_bounds(y1, 12, 31);
    } else {
        lemma_year_start_monotone(y1, y2 - 1);
        lemma_year_bounds(y2 - 1, 1, 1);
        lemma_year_bounds(y2 - 1, 12, 31);
    }
}

// V3 (one direction; the converse follows by trichotomy)
pub proof fn lemma_order(y1: int, m1: int, d1: int, y2: int, m2: int, d2: int)
    requires m_valid_date(y1, m1, d1), m_valid_date(y2, m2, d2), m_lex(y1, m1, d1) < m_lex(y2, m2, d2),
    ensures m_jdn(y1, m1, d1) < m_jdn(y2, m2, d2),
{
    lemma_cum_values();
    if y1 < y2 {
        lemma_year_start_monotone(y1, y2);
        lemma_year_bounds(y1, m1, d1);
        lemma_year_bounds(y2, m2, d2);
    } else {
        assert(y1 == y2);
    }
}

pub proof fn lemma_order_iff(y1: int, m1: int, d1: int, y2: int, m2: int, d2: int)
    requires m_valid_date(y1, m1, d1), m_valid_date(y2, m2, d2),
    ensures (m_lex(y1, m1, d1) < m_lex(y2, m2, d2)) == (m_jdn(y1, m1, d1) < m_jdn(y2, m2, d2)),
            (m_lex(y1, m1, d1) == m_lex(y2, m2, d2)) == (m_jdn(y1, m1, d1) == m_jdn(y2, m2, d2)),
            (m_lex(y1, m1, d1) == m_lex(y2, m2, d2)) == (y1 == y2 && m1 == m2 && d1 == d2),
{
    if m_lex(y1, m1, d1) < m_lex(y2, m2, d2) { lemma_order(y1, m1, d1, y2, m2, d2); }
    if m_lex(y2, m2, d2) < m_lex(y1, m1, d1) { lemma_order(y2, m2, d2, y1, m1, d1); }
}

// V2 injectivity
pub proof fn lemma_injective(y1: int, m1: int, d1: int, y2: int, m2: int, d2: int)
    requires m_valid_date(y1, m1, d1), m_valid_date(y2, m2, d2), m_jdn(y1, m1, d1) == m_jdn(y2, m2, d2),
    ensures y1 == y2 && m1 == m2 && d1 == d2,
{
    lemma_order_iff(y1, m1, d1, y2, m2, d2);
}

// V2 range and surjectivity: every day number in [JDN_MIN, JDN_MAX] is the number of a valid date
pub proof fn lemma_range(y: int, m: int, d: int)
    requires m_valid_date(y, m, d),
    ensures 1721424 <= m_jdn(y, m, d) <= 5373484,
{
    lemma_endpoints();
    lemma_order_iff(1, 1, 1, y, m, d);
    lemma_order_iff(y, m, d, 9999, 12, 31);
}

pub proof fn lemma_surjective(n: int) -> (r: (int, int, int))
    requires 1721424 <= n <= 5373484,
    ensures m_valid_date(r.0, r.1, r.2), m_jdn(r.0, r.1, r.2) == n,
    decreases n,
{
    lemma_endpoints();
    if n == 1721424 {
        (1int, 1int, 1int)
    } else {
        let p = lemma_surjective(n - 1);
        if p.0 == 9999 && p.1 == 12 && p.2 == 31 {
            assert(false);
        }
        lemma_succ(p.0, p.1, p.2);
        m_succ(p.0, p.1, p.2)
    }
}

// round trip identity from the two conversion contracts (K1, K3) + injectivity:
// if back(..) is ANY valid date with the same day number, it is the same date.
pub proof fn lemma_roundtrip(y: int, m: int, d: int, y2: int, m2: int, d2: int)
    requires m_valid_date(y, m, d), m_valid_date(y2, m2, d2), m_jdn(y2, m2, d2) == m_jdn(y, m, d),
    ensures y2 == y && m2 == m && d2 == d,
{
    lemma_injective(y, m, d, y2, m2, d2);
}

// V4 lengths are day-number differences
pub proof fn lemma_lengths(y: int, m: int)
    requires 1 <= y <= 9999, 1 <= m <= 12,
    ensures
        m < 12 ==> m_jdn(y, m + 1, 1) - m_jdn(y, m, 1) == m_month_len(y, m),
        m == 12 && y < 9999 ==> m_jdn(y + 1, 1, 1) - m_jdn(y, 12, 1) == 31,
        y < 9999 ==> m_jdn(y + 1, 1, 1) - m_jdn(y, 1, 1) == (if y == 1582 { 355int } else if m_is_leap(y) { 366int } else { 365int }),
        m_is_leap(y) == (m_month_len(y, 2) == 29),
{
    lemma_cum_values();
}

// stepping by n then by k == stepping by n + k (group law for day stepping follows from K5: jdn(next(n)) = jdn + n and injectivity)
pub proof fn lemma_step_group(j: int, a: int, b: int)
    ensures (j + a) + b == j + (a + b), j + 0 == j, (j + a) + (-a) == j,
{
}

} // verus!
fn main() {}
