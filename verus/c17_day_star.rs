// C17 (V): SixtyCycleDay::get_nine_star (flying nine star of the day) extracted verbatim from src/tyme/sixtycycle.rs against the
// solstice-turning rule written from the property text, over an UNINTERPRETED term-day table TD(k) (k = 24*year + index):
//   the star runs forward (+1 per day, from star 0 = One White) from the Jiazi day nearest the winter solstice, backward
//   (-1 per day, from star 8 = Nine Purple) from the Jiazi day nearest the summer solstice, and forward again from the
//   Jiazi day nearest the next winter solstice; before the first turning day it runs backward towards it.
// "Nearest Jiazi day" of a day t with pillar p = (t + 49) mod 60: t - p when p <= 29, t + 60 - p otherwise.
// Also: LunarDay::get_nine_star (the same algorithm on the lunar view) and SixtyCycleHour::get_nine_star with
// get_index_in_day (hour star: start 8/5/2 by day branch mod 3 descending after the summer solstice, mirrored and
// ascending between the winter and the summer solstice day, advancing one per double-hour).
// Callee contracts (external_body): term day (L-TD), day pillar (C07), SolarDay::is_before / next / subtract (K, C01),
// SolarTerm::next (K, c06_k_next), NineStar::from_index (K, generated cycle harness).
use vstd::prelude::*;
verus! {
global size_of usize == 8;

pub uninterp spec fn TD(k: int) -> int;
pub open spec fn pillar(t: int) -> int { (t + 49) % 60 }
pub open spec fn near(t: int) -> int { if pillar(t) > 29 { t + 60 - pillar(t) } else { t - pillar(t) } }
// 28 mansions: the mansion of day n from its weekday (n + 1) mod 7 and branch (n + 49) mod 12
pub open spec fn mansion_base(w: int) -> int { if w == 0 { 10 } else if w == 1 { 18 } else if w == 2 { 26 } else if w == 3 { 6 } else if w == 4 { 14 } else if w == 5 { 22 } else { 2 } }
pub open spec fn mansion_spec(n: int) -> int { (mansion_base((n + 1) % 7) - 7 * (pillar(n) % 12)) % 28 }
/// luminary of a mansion in SEVEN_STAR order Sun 0, Moon 1, Mars 2, Mercury 3, Jupiter 4, Venus 5, Saturn 6 == weekday order
pub open spec fn luminary(m: int) -> int { (m % 7 + 4) % 7 }
// the property's two clauses, as consequences of the formula (n mod 84 decides everything): the mansions advance one per day,
// and the luminary of the day's mansion is the day's weekday
pub proof fn lemma_mansion_advances(n: int)
    requires n >= 0,
    ensures mansion_spec(n + 1) == (mansion_spec(n) + 1) % 28, luminary(mansion_spec(n)) == (n + 1) % 7, 0 <= mansion_spec(n) < 28,
{
    let a = (n + 1) % 7; let b = (n + 49) % 60 % 12;
    assert(0 <= a < 7 && 0 <= b < 12);
    assert((n + 49) % 60 % 12 == (n + 49) % 12) by { vstd::arithmetic::div_mod::lemma_mod_mod(n + 49, 12, 5); }
    assert((n + 50) % 60 % 12 == (n + 50) % 12) by { vstd::arithmetic::div_mod::lemma_mod_mod(n + 50, 12, 5); }
    let a1 = (n + 2) % 7; let b1 = (n + 50) % 12;
    assert(a1 == (if a == 6 { 0 } else { a + 1 }));
    assert(b1 == (if b == 11 { 0 } else { b + 1 }));
    // 7 x 12 residue pairs
    assert(mansion_spec(n + 1) == (mansion_spec(n) + 1) % 28 && luminary(mansion_spec(n)) == a && 0 <= mansion_spec(n) < 28) by {
        assert(mansion_spec(n) == (mansion_base(a) - 7 * b) % 28);
        assert(mansion_spec(n + 1) == (mansion_base(a1) - 7 * b1) % 28);
    }
}
pub open spec fn hour_star_spec(n: int, y: int, day_branch: int, index_in_day: int) -> int {
    let asc = TD(24 * y) <= n && n < TD(24 * y + 12);
    let s = if day_branch % 3 == 0 { 8int } else if day_branch % 3 == 1 { 5int } else { 2int };
    if asc { (8 - s + index_in_day % 12) % 9 } else { (s - index_in_day % 12) % 9 }
}
pub open spec fn day_star_spec(n: int, y: int) -> int {
    let w0 = near(TD(24 * y));
    let s0 = near(TD(24 * y + 12));
    let w1 = near(TD(24 * y + 24));
    if n >= w0 && n < s0 { (n - w0) % 9 }
    else if n >= s0 && n < w1 { (8 - (n - s0)) % 9 }
    else if n >= w1 { (n - w1) % 9 }
    else { (8 + (w0 - n)) % 9 }
}

#[verifier::external_body]
pub struct SolarDay { _p: u8 }
impl Clone for SolarDay { #[verifier::external_body] fn clone(&self) -> Self { unimplemented!() } }
impl Copy for SolarDay {}
#[verifier::external_body]
pub struct SolarTerm { _p: u8 }
#[verifier::external_body]
pub struct JulianDay { _p: u8 }
#[verifier::external_body]
pub struct LunarDay { _p: u8 }
#[verifier::external_body]
pub struct SixtyCycle { _p: u8 }
#[verifier::external_body]
pub struct SixtyCycleMonth { _p: u8 }
#[verifier::external_body]
pub struct NineStar { _p: u8 }
#[verifier::external_body]
pub struct Week { _p: u8 }
impl Week {
    pub uninterp spec fn idx(&self) -> int;
    #[verifier::external_body]
    fn get_index(&self) -> (r: usize) ensures r == self.idx(), r < 7 { unimplemented!() }
}
#[verifier::external_body]
pub struct TwentyEightStar { _p: u8 }
impl TwentyEightStar {
    pub uninterp spec fn idx(&self) -> int;
    // K (generated cycle harness c11_cycle_TwentyEightStar): from_index / next are the cyclic group on 28 indices
    #[verifier::external_body]
    fn from_index(index: isize) -> (r: Self) ensures r.idx() == index % 28 { unimplemented!() }
    #[verifier::external_body]
    fn next(&self, n: isize) -> (r: Self) ensures r.idx() == (self.idx() + n) % 28 { unimplemented!() }
}
#[verifier::external_body]
pub struct EarthBranch { _p: u8 }
#[verifier::external_body]
pub struct SolarTime { _p: u8 }
impl Clone for SolarTime { #[verifier::external_body] fn clone(&self) -> Self { unimplemented!() } }
impl Copy for SolarTime {}
impl SolarTime {
    pub uninterp spec fn hour(&self) -> int;
    pub uninterp spec fn day_jdn(&self) -> int;
    pub uninterp spec fn y(&self) -> int;
    #[verifier::external_body]
    fn get_hour(&self) -> (r: usize) ensures r == self.hour(), r < 24 { unimplemented!() }
    #[verifier::external_body]
    fn get_solar_day(&self) -> (r: SolarDay) ensures r.jdn() == self.day_jdn(), r.y() == self.y() { unimplemented!() }
}
impl EarthBranch {
    pub uninterp spec fn idx(&self) -> int;
    #[verifier::external_body]
    fn get_index(&self) -> (r: usize) ensures r == self.idx(), r < 12 { unimplemented!() }
}

impl JulianDay {
    pub uninterp spec fn src_k(&self) -> int;
    #[verifier::external_body]
    fn get_solar_day(&self) -> (r: SolarDay) ensures r.jdn() == TD(self.src_k()) { unimplemented!() }
}
impl SolarTerm {
    pub uninterp spec fn k(&self) -> int;
    #[verifier::external_body]
    fn from_index(year: isize, index: isize) -> (r: Self)
        requires 1 <= year <= 10000, 0 <= index < 24,
        ensures r.k() == 24 * year + index,
    { unimplemented!() }
    #[verifier::external_body]
    fn next(&self, n: isize) -> (r: SolarTerm) ensures r.k() == self.k() + n { unimplemented!() }
    #[verifier::external_body]
    fn get_julian_day(&self) -> (r: JulianDay) ensures r.src_k() == self.k() { unimplemented!() }
}
impl LunarDay {
    pub uninterp spec fn jdn(&self) -> int;
    pub uninterp spec fn y(&self) -> int;
    // C02 contract: the civil day of a lunar day is the same day
    #[verifier::external_body]
    fn get_solar_day(&self) -> (r: SolarDay) ensures r.jdn() == self.jdn(), r.y() == self.y() { unimplemented!() }
    //@EXTRACT file=src/tyme/lunar.rs impl="impl LunarDay" fn=get_nine_star
    //@sig
        requires
            -3000000 <= self.jdn() <= 6000000,
            -3000000 <= TD(24 * self.y()) <= 6000000,
            -3000000 <= TD(24 * self.y() + 12) <= 6000000,
            -3000000 <= TD(24 * self.y() + 24) <= 6000000,
        ensures r.idx() == day_star_spec(self.jdn(), self.y()),
    //@END
    #[verifier::external_body]
    fn get_sixty_cycle(&self) -> (r: SixtyCycle) ensures r.idx() == pillar(self.jdn()) { unimplemented!() }
}
impl SixtyCycle {
    pub uninterp spec fn idx(&self) -> int;
    #[verifier::external_body]
    fn get_index(&self) -> (r: usize) ensures r == self.idx(), r < 60 { unimplemented!() }
    #[verifier::external_body]
    fn get_earth_branch(&self) -> (r: EarthBranch) ensures r.idx() == self.idx() % 12 { unimplemented!() }
}
impl NineStar {
    pub uninterp spec fn idx(&self) -> int;
    #[verifier::external_body]
    fn from_index(index: isize) -> (r: Self) ensures r.idx() == index % 9 { unimplemented!() }
}
impl SolarDay {
    pub uninterp spec fn jdn(&self) -> int;
    pub uninterp spec fn y(&self) -> int;
    #[verifier::external_body]
    fn get_year(&self) -> (r: isize) ensures r == self.y(), 1 <= r <= 9999 { unimplemented!() }
    #[verifier::external_body]
    fn is_before(&self, target: SolarDay) -> (r: bool) ensures r == (self.jdn() < target.jdn()) { unimplemented!() }
    #[verifier::external_body]
    fn next(&self, n: isize) -> (r: SolarDay) ensures r.jdn() == self.jdn() + n { unimplemented!() }
    #[verifier::external_body]
    fn subtract(&self, target: SolarDay) -> (r: isize) ensures r == self.jdn() - target.jdn() { unimplemented!() }
    #[verifier::external_body]
    fn get_lunar_day(&self) -> (r: LunarDay) ensures r.jdn() == self.jdn() { unimplemented!() }
    // K (c07_k_week): weekday == (day number + 1) mod 7
    #[verifier::external_body]
    fn get_week(&self) -> (r: Week) ensures r.idx() == (self.jdn() + 1) % 7 { unimplemented!() }
}

//@STRUCT file=src/tyme/sixtycycle.rs struct=SixtyCycleDay

impl SixtyCycleDay {
    /// representation invariant established by SixtyCycleDay::from_solar_day (c08_k_from_solar_day: the day pillar is that of the date)
    spec fn wf(&self) -> bool { self.day.idx() == pillar(self.solar_day.jdn()) }
    //@EXTRACT file=src/tyme/sixtycycle.rs impl="impl SixtyCycleDay" fn=get_twenty_eight_star
    //@sig
        requires self.wf(), 0 <= self.solar_day.jdn() <= 6000000,
        ensures r.idx() == mansion_spec(self.solar_day.jdn()),
    //@END
    //@EXTRACT file=src/tyme/sixtycycle.rs impl="impl SixtyCycleDay" fn=get_nine_star
    //@sig
        requires
            -3000000 <= self.solar_day.jdn() <= 6000000,
            -3000000 <= TD(24 * self.solar_day.y()) <= 6000000,
            -3000000 <= TD(24 * self.solar_day.y() + 12) <= 6000000,
            -3000000 <= TD(24 * self.solar_day.y() + 24) <= 6000000,
        ensures r.idx() == day_star_spec(self.solar_day.jdn(), self.solar_day.y()),
    //@END
}

//@STRUCT file=src/tyme/sixtycycle.rs struct=SixtyCycleHour

impl SixtyCycleHour {
    pub uninterp spec fn day_pillar(&self) -> int;
    // the day pillar of the instant view (C09: c09_k_from_solar_time)
    #[verifier::external_body]
    fn get_day(&self) -> (r: SixtyCycle) ensures r.idx() == self.day_pillar() { unimplemented!() }
    //@EXTRACT file=src/tyme/sixtycycle.rs impl="impl SixtyCycleHour" fn=get_index_in_day
    //@sig
        ensures r == (if self.solar_time.hour() == 23 { 0 } else { (self.solar_time.hour() + 1) / 2 }), r <= 11,
    //@END
    //@EXTRACT file=src/tyme/sixtycycle.rs impl="impl SixtyCycleHour" fn=get_nine_star
    //@sig
        ensures r.idx() == hour_star_spec(self.solar_time.day_jdn(), self.solar_time.y(), self.day_pillar() % 12,
                                          if self.solar_time.hour() == 23 { 0 } else { (self.solar_time.hour() + 1) / 2 }),
    //@END
}

} // verus!
fn main() {}
