// C03 / C11 (V): LunarMonth::next, LunarYear::next/from_year/new, LunarYear::get_month_count and
// LunarYear::get_months extracted verbatim from src/tyme/lunar.rs.
// The leap-month table is an UNINTERPRETED function leap_of(y) in 0..12: the proof holds for every
// assignment of leap months to years, so no table content is assumed.
//   next(n): the absolute month ordinal moves by exactly n; the decoded (month, leap flag) is the one at
//            that position (leap month directly after its regular twin); from_ym is never refused
//   get_months: lists exactly the months of ordinals mb(y) .. mb(y)+msize(y)-1, in order
// Leaf contracts used (assumptions, class L / external_body): LunarYear::get_leap_month == leap_of,
// LunarMonth::from_ym(y, m) accepts valid (y, m) and returns the month with those fields.
use vstd::prelude::*;
verus! {

pub uninterp spec fn leap_of(y: int) -> int;

#[verifier::external_body]
pub proof fn axiom_leap_range(y: int)
    ensures 0 <= leap_of(y) <= 12,
{ unimplemented!() }

pub open spec fn msize(y: int) -> int { if leap_of(y) > 0 { 13 } else { 12 } }

/// number of lunar months before lunar year y (relative to year 0)
pub open spec fn mb(y: int) -> int
    decreases (if y >= 0 { y } else { -y }),
{
    if y == 0 { 0 } else if y > 0 { mb(y - 1) + msize(y - 1) } else { mb(y + 1) - msize(y) }
}

pub proof fn lemma_mb_step(y: int)
    ensures mb(y + 1) == mb(y) + msize(y), 12 <= msize(y) <= 13,
{
    axiom_leap_range(y);
    if y >= 0 { assert(mb(y + 1) == mb(y) + msize(y)); } else { assert(mb(y) == mb(y + 1) - msize(y)); }
}

pub proof fn lemma_mb_mono(a: int, b: int)
    requires a <= b,
    ensures mb(a) + 12 * (b - a) <= mb(b), mb(b) <= mb(a) + 13 * (b - a),
    decreases b - a,
{
    if a < b { lemma_mb_mono(a, b - 1); lemma_mb_step(b - 1); }
}

/// (year, position) <-> ordinal is injective
pub proof fn lemma_ord_injective(y1: int, i1: int, y2: int, i2: int)
    requires 0 <= i1 < msize(y1), 0 <= i2 < msize(y2), mb(y1) + i1 == mb(y2) + i2,
    ensures y1 == y2 && i1 == i2,
{
    if y1 < y2 { lemma_mb_mono(y1 + 1, y2); lemma_mb_step(y1); }
    if y2 < y1 { lemma_mb_mono(y2 + 1, y1); lemma_mb_step(y2); }
}

pub open spec fn valid_month(leap: int, month: int) -> bool {
    month != 0 && -12 <= month <= 12 && (month < 0 ==> -month == leap)
}
/// position in the year of month number `month` (negative = leap) when the year's leap month is `leap`
pub open spec fn idx_of_month(leap: int, month: int) -> int {
    let m = if month < 0 { -month } else { month };
    m - 1 + (if month < 0 || (leap > 0 && m > leap) { 1int } else { 0int })
}

pub proof fn lemma_idx_range(leap: int, month: int)
    requires valid_month(leap, month), 0 <= leap <= 12,
    ensures 0 <= idx_of_month(leap, month) < (if leap > 0 { 13int } else { 12int }),
{}

#[verifier::external_body]
pub struct JulianDay { day: f64 }
impl Clone for JulianDay { #[verifier::external_body] fn clone(&self) -> Self { unimplemented!() } }
impl Copy for JulianDay {}

#[verifier::external_body]
fn verif_msg() -> String { unimplemented!() }

// C13: a lunar month lists exactly its days. DCNT(y, m) is the length the month table gives month (y, m)
// (L-NEW: 29 or 30); LunarDay::from_ymd accepts exactly 1 <= day <= DCNT (leaf, c02_lunar_side).
pub uninterp spec fn DCNT(y: int, mwl: int) -> int;
#[verifier::external_body]
pub struct LunarDay { _p: u8 }
impl LunarDay {
    pub uninterp spec fn y(&self) -> int;
    pub uninterp spec fn mwl(&self) -> int;
    pub uninterp spec fn d(&self) -> int;
    #[verifier::external_body]
    fn from_ymd(year: isize, month: isize, day: usize) -> (r: Self)
        requires 1 <= day <= DCNT(year as int, month as int),
        ensures r.y() == year, r.mwl() == month, r.d() == day,
    { unimplemented!() }
}

//@STRUCT file=src/tyme/lunar.rs struct=LunarYear derive="Clone, Copy"
//@STRUCT file=src/tyme/lunar.rs struct=LunarMonth derive="Clone, Copy"

impl LunarYear {
    //@EXTRACT file=src/tyme/lunar.rs impl="impl LunarYear" fn=new
    //@sig
        ensures (-1 <= year <= 9999) == r.is_ok(), r.is_ok() ==> r.unwrap().year == year,
    //@END
    //@EXTRACT file=src/tyme/lunar.rs impl="impl LunarYear" fn=from_year
    //@sig
        requires -1 <= year <= 9999,
        ensures r.year == year,
    //@END
    //@EXTRACT file=src/tyme/lunar.rs impl="impl LunarYear" fn=get_year
    //@sig
        ensures r == self.year,
    //@END
    //@EXTRACT file=src/tyme/lunar.rs impl="impl Tyme for LunarYear" fn=next
    //@sig
        requires -1 <= self.year + n <= 9999, -1 <= self.year <= 9999, -20000 <= n <= 20000,
        ensures r.year == self.year + n,
    //@END
    //@EXTRACT file=src/tyme/lunar.rs impl="impl LunarYear" fn=get_month_count
    //@sig
        ensures r == msize(self.year as int),
    //@END

    // leaf (class L): the packed leap-month table lookup
    #[verifier::external_body]
    fn get_leap_month(&self) -> (r: usize)
        ensures r == leap_of(self.year as int), 0 <= r <= 12,
    { unimplemented!() }

    //@EXTRACT file=src/tyme/lunar.rs impl="impl LunarYear" fn=get_months loops=1
    //@sig
        requires 0 <= self.year <= 9998,
        ensures r@.len() == msize(self.year as int),
                forall|i: int| 0 <= i < r@.len() ==> (#[trigger] r@[i]).wf() && r@[i].year.year == self.year && r@[i].index_in_year == i,
    //@loop 0
        invariant
            0 <= self.year <= 9998,
            m.wf(),
            m.ord() == mb(self.year as int) + l@.len(),
            l@.len() <= msize(self.year as int),
            forall|i: int| 0 <= i < l@.len() ==> (#[trigger] l@[i]).wf() && l@[i].year.year == self.year && l@[i].index_in_year == i,
            mb(0) <= mb(self.year as int), mb(self.year as int) + msize(self.year as int) + 12 <= mb(10000),
            0 <= leap_of(self.year as int) <= 12,
        decreases mb(self.year as int) + 14 - m.ord(),
    //@body_start
        proof {
            axiom_leap_range(self.year as int);
            lemma_mb_step(self.year as int);
            lemma_mb_step(self.year as int + 1);
            lemma_mb_mono(self.year as int + 1, 10000);
            lemma_mb_mono(0, self.year as int);
            lemma_idx_range(leap_of(self.year as int), 1);
        }
    //@loop_start 0
        proof {
            axiom_leap_range(m.year.year as int);
            lemma_idx_range(leap_of(m.year.year as int), m.mwl());
        }
    //@after_loop 0
        proof {
            axiom_leap_range(m.year.year as int);
            lemma_idx_range(leap_of(m.year.year as int), m.mwl());
            if l@.len() < msize(self.year as int) {
                lemma_ord_injective(m.year.year as int, m.index_in_year as int, self.year as int, l@.len() as int);
            }
        }
    //@END
}

impl LunarMonth {
    spec fn mwl(&self) -> int { if self.leap { -(self.month as int) } else { self.month as int } }
    spec fn ord(&self) -> int { mb(self.year.year as int) + self.index_in_year }
    spec fn wf(&self) -> bool {
        0 <= self.year.year <= 9999
        && valid_month(leap_of(self.year.year as int), self.mwl())
        && self.index_in_year == idx_of_month(leap_of(self.year.year as int), self.mwl())
        && 1 <= self.month <= 12
    }

    // leaf (class L, via the cache wrapper): accepts exactly the valid (year, month) pairs
    #[verifier::external_body]
    fn from_ym(year: isize, month: isize) -> (r: Self)
        requires 0 <= year <= 9999, valid_month(leap_of(year as int), month as int),
        ensures r.year.year == year, r.mwl() == month, r.wf(),
    { unimplemented!() }

    //@EXTRACT file=src/tyme/lunar.rs impl="impl LunarMonth" fn=get_month_with_leap
    //@sig
        requires 1 <= self.month <= 12,
        ensures r == self.mwl(),
    //@END
    //@EXTRACT file=src/tyme/lunar.rs impl="impl LunarMonth" fn=get_year
    //@sig
        ensures r == self.year.year,
    //@END
    //@EXTRACT file=src/tyme/lunar.rs impl="impl LunarMonth" fn=get_day_count
    //@sig
        ensures r == self.day_count,
    //@END
    //@EXTRACT file=src/tyme/lunar.rs impl="impl LunarMonth" fn=get_days loops=1
    //@sig
        requires 1 <= self.month <= 12, self.day_count == DCNT(self.year.year as int, self.mwl()), self.day_count <= 31,
        ensures r@.len() == self.day_count,
                forall|i: int| 0 <= i < r@.len() ==> (#[trigger] r@[i]).y() == self.year.year && r@[i].mwl() == self.mwl() && r@[i].d() == i + 1,
    //@loop 0
        invariant
            size == self.day_count, size == DCNT(y as int, m as int), size <= 31, y == self.year.year, m == self.mwl(),
            l@.len() == i,
            forall|j: int| 0 <= j < l@.len() ==> (#[trigger] l@[j]).y() == self.year.year && l@[j].mwl() == self.mwl() && l@[j].d() == j + 1,
    //@END

    //@EXTRACT file=src/tyme/lunar.rs impl="impl Tyme for LunarMonth" fn=next loops=1
    //@sig
        requires
            self.wf(),
            -200000 <= n <= 200000,
            mb(0) <= self.ord() + n < mb(10000),
        ensures
            r.wf(),
            r.ord() == self.ord() + n,
    //@body_start
        proof {
            axiom_leap_range(self.year.year as int);
            lemma_mb_mono(0, self.year.year as int);
            lemma_mb_mono(self.year.year as int, 10000);
            lemma_mb_step(self.year.year as int);
        }
    //@loop 0
        invariant
            self.wf(), n != 0, forward == (n > 0), add == (if forward { 1isize } else { -1isize }),
            -200000 <= n <= 200000,
            mb(0) <= self.ord() + n < mb(10000),
            0 <= y.year <= 9999,
            leap_month == leap_of(y.year as int), month_size == msize(y.year as int), 0 <= leap_month <= 12,
            mb(y.year as int) + m - 1 == self.ord() + n,
            forward ==> m >= 1,
            !forward ==> m <= month_size,
            -300000 <= m <= 300000,
        decreases (if forward { m as int } else { 14 - m }),
    //@loop_start 0
        proof {
            lemma_mb_step(y.year as int);
            lemma_mb_step(y.year as int - 1);
            lemma_mb_mono(0, y.year as int);
            lemma_mb_mono(y.year as int + 1, 10000);
            axiom_leap_range(y.year as int + 1);
            axiom_leap_range(y.year as int - 1);
        }
    //@END
}

// round trip and group law on ordinals (C11): from the contract of next and injectivity
pub proof fn lemma_month_step_group(o: int, a: int, b: int)
    ensures (o + a) + b == o + (a + b), (o + a) + (-a) == o, o + 0 == o,
{}

} // verus!
fn main() {}
