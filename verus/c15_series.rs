// C15 (V): SolarDay::get_nine_day and SolarDay::get_phenology_day extracted verbatim from src/tyme/solar.rs,
// against spec functions written from the property text, over an UNINTERPRETED term-day table TD(k)
// (k = 24*year + index) - the proof holds for any term table.
//   nine:   the 81 days from each winter-solstice day, nine days each, and no other day
//   pentad: three per term: days 0-4, 5-9, 10+ of the term, with the day index inside the pentad
//   dog:    from the third Geng day on or after the summer-solstice day: 10 days, then 10 or 20 according to whether the fifth
//           Geng day precedes the start-of-autumn day, then 10 days, and no other day
//   plum:   from the first Bing day on or after Grain-in-Ear to the first Wei day on or after Slight Heat (that day: leaving)
// (get_hide_heaven_stem_day goes through str slicing: exhaustive execution only, see evidence.)
// The stem / branch of a day come from its pillar (day number + 49) mod 60 (C07 contract).
// Callee contracts (external_body): term day (L-TD), SolarDay::is_before / next / subtract (K, C01),
// SolarDay::get_term (V, C06), Nine::from_index / Phenology::from_index (K, C11 generated cycle harnesses).
use vstd::prelude::*;
verus! {
global size_of usize == 8;

pub uninterp spec fn TD(k: int) -> int;

pub open spec fn nine_spec(n: int, w1: int, w0: int) -> Option<(int, int)> {
    let ws = if w1 <= n { w1 } else { w0 };
    if ws <= n && n - ws < 81 { Some(((n - ws) / 9, (n - ws) % 9)) } else { None }
}
pub open spec fn emod(a: int, b: int) -> int { a % b }
/// first day on or after `from` whose stem (resp. branch) is `target`
pub open spec fn first_stem_day(from: int, target: int) -> int { from + emod(target - (from + 49) % 60 % 10, 10) }
pub open spec fn first_branch_day(from: int, target: int) -> int { from + emod(target - (from + 49) % 60 % 12, 12) }
pub open spec fn dog_spec(n: int, sol: int, lq: int) -> Option<(int, int)> {
    let first = first_stem_day(sol, 6) + 20;            // third Geng day
    let last = if lq > first + 20 { first + 30 } else { first + 20 };  // fifth Geng day precedes start of autumn: 20 middle days
    if n < first { None }
    else if n < first + 10 { Some((0int, n - first)) }
    else if n < last { Some((1int, n - first - 10)) }
    else if n < last + 10 { Some((2int, n - last)) }
    else { None }
}
pub open spec fn plum_spec(n: int, ge: int, sh: int) -> Option<(int, int)> {
    let start = first_stem_day(ge, 2);                  // first Bing day on or after Grain-in-Ear
    let end = first_branch_day(sh, 7);                  // first Wei day on or after Slight Heat
    if n < start || n > end { None } else if n == end { Some((1int, 0int)) } else { Some((0int, n - start)) }
}
pub open spec fn pentad_spec(n: int, k: int) -> (int, int) {
    let di = n - TD(k);
    let p = if di / 5 > 2 { 2 } else { di / 5 };
    ((k % 24) * 3 + p, di - 5 * p)
}

#[verifier::external_body]
pub struct SolarDay { _p: u8 }
impl Clone for SolarDay { #[verifier::external_body] fn clone(&self) -> Self { unimplemented!() } }
impl Copy for SolarDay {}
#[verifier::external_body]
pub struct SolarTerm { _p: u8 }
#[verifier::external_body]
pub struct JulianDay { _p: u8 }
#[verifier::external_body]
pub struct LunarDay { _p: u8 }
#[verifier::external_body]
pub struct SixtyCycle { _p: u8 }
#[verifier::external_body]
pub struct HeavenStem { _p: u8 }
#[verifier::external_body]
pub struct EarthBranch { _p: u8 }
#[verifier::external_body]
pub struct LoopTyme { _p: u8 }
#[verifier::external_body]
pub struct Dog { _p: u8 }
#[verifier::external_body]
pub struct DogDay { _p: u8 }
#[verifier::external_body]
pub struct PlumRain { _p: u8 }
#[verifier::external_body]
pub struct PlumRainDay { _p: u8 }
#[verifier::external_body]
pub struct Nine { _p: u8 }
#[verifier::external_body]
pub struct NineDay { _p: u8 }
#[verifier::external_body]
pub struct Phenology { _p: u8 }
#[verifier::external_body]
pub struct PhenologyDay { _p: u8 }

impl JulianDay {
    pub uninterp spec fn src_k(&self) -> int;
    #[verifier::external_body]
    fn get_solar_day(&self) -> (r: SolarDay) ensures r.jdn() == TD(self.src_k()) { unimplemented!() }
}
impl SolarTerm {
    pub uninterp spec fn k(&self) -> int;
    #[verifier::external_body]
    fn from_index(year: isize, index: isize) -> (r: Self)
        requires 1 <= year <= 10000, 0 <= index < 24,
        ensures r.k() == 24 * year + index,
    { unimplemented!() }
    #[verifier::external_body]
    fn get_julian_day(&self) -> (r: JulianDay) ensures r.src_k() == self.k() { unimplemented!() }
    #[verifier::external_body]
    fn get_index(&self) -> (r: usize) requires self.k() >= 0, ensures r == self.k() % 24 { unimplemented!() }
    // K (C06 c06_k_next): stepping moves the term number by exactly n
    #[verifier::external_body]
    fn next(&self, n: isize) -> (r: SolarTerm) ensures r.k() == self.k() + n { unimplemented!() }
}
impl LunarDay {
    pub uninterp spec fn jdn(&self) -> int;
    // C07 contract (c07_k_lunar_day_pillar_args + pillar_name table fact): pillar == (day number + 49) mod 60
    #[verifier::external_body]
    fn get_sixty_cycle(&self) -> (r: SixtyCycle) ensures r.idx() == (self.jdn() + 49) % 60 { unimplemented!() }
}
impl SixtyCycle {
    pub uninterp spec fn idx(&self) -> int;
    #[verifier::external_body]
    fn get_heaven_stem(&self) -> (r: HeavenStem) ensures r.idx() == self.idx() % 10 { unimplemented!() }
    #[verifier::external_body]
    fn get_earth_branch(&self) -> (r: EarthBranch) ensures r.idx() == self.idx() % 12 { unimplemented!() }
}
impl HeavenStem {
    pub uninterp spec fn idx(&self) -> int;
    // E9: `x.into()` with target LoopTyme is written `x.verif_into()`; the impl is `fn into(self) -> LoopTyme { self.parent }`
    #[verifier::external_body]
    fn verif_into(self) -> (r: LoopTyme) ensures r.idx() == self.idx(), r.size() == 10 { unimplemented!() }
}
impl EarthBranch {
    pub uninterp spec fn idx(&self) -> int;
    #[verifier::external_body]
    fn verif_into(self) -> (r: LoopTyme) ensures r.idx() == self.idx(), r.size() == 12 { unimplemented!() }
}
impl LoopTyme {
    pub uninterp spec fn idx(&self) -> int;
    pub uninterp spec fn size(&self) -> int;
    // K (c15_k_steps_to, real body): steps from this index forward to the target index
    #[verifier::external_body]
    fn steps_to(&self, target_index: isize) -> (r: usize)
        requires self.size() > 0,
        ensures r == emod(target_index - self.idx(), self.size()),
    { unimplemented!() }
}
impl Dog {
    pub uninterp spec fn idx(&self) -> int;
    #[verifier::external_body]
    fn from_index(index: isize) -> (r: Self) ensures r.idx() == index % 3 { unimplemented!() }
}
impl DogDay {
    pub uninterp spec fn dog_idx(&self) -> int;
    pub uninterp spec fn day_idx(&self) -> int;
    #[verifier::external_body]
    fn new(dog: Dog, day_index: usize) -> (r: Self) ensures r.dog_idx() == dog.idx(), r.day_idx() == day_index { unimplemented!() }
}
impl PlumRain {
    pub uninterp spec fn idx(&self) -> int;
    #[verifier::external_body]
    fn from_index(index: isize) -> (r: Self) ensures r.idx() == index % 2 { unimplemented!() }
}
impl PlumRainDay {
    pub uninterp spec fn pr_idx(&self) -> int;
    pub uninterp spec fn day_idx(&self) -> int;
    #[verifier::external_body]
    fn new(plum_rain: PlumRain, day_index: usize) -> (r: Self) ensures r.pr_idx() == plum_rain.idx(), r.day_idx() == day_index { unimplemented!() }
}
impl Nine {
    pub uninterp spec fn idx(&self) -> int;
    #[verifier::external_body]
    fn from_index(index: isize) -> (r: Self) ensures r.idx() == index % 9 { unimplemented!() }
}
impl NineDay {
    pub uninterp spec fn nine_idx(&self) -> int;
    pub uninterp spec fn day_idx(&self) -> int;
    #[verifier::external_body]
    fn new(nine: Nine, day_index: usize) -> (r: Self) ensures r.nine_idx() == nine.idx(), r.day_idx() == day_index { unimplemented!() }
}
impl Phenology {
    pub uninterp spec fn idx(&self) -> int;
    #[verifier::external_body]
    fn from_index(index: isize) -> (r: Self) ensures r.idx() == index % 72 { unimplemented!() }
}
impl PhenologyDay {
    pub uninterp spec fn ph_idx(&self) -> int;
    pub uninterp spec fn day_idx(&self) -> int;
    #[verifier::external_body]
    fn new(phenology: Phenology, day_index: usize) -> (r: Self) ensures r.ph_idx() == phenology.idx(), r.day_idx() == day_index { unimplemented!() }
}

impl SolarDay {
    pub uninterp spec fn jdn(&self) -> int;
    pub uninterp spec fn y(&self) -> int;
    /// number of the governing term (the latest term whose day is on or before this day; C06)
    pub uninterp spec fn gk(&self) -> int;
    #[verifier::external_body]
    fn get_year(&self) -> (r: isize) ensures r == self.y(), 1 <= r <= 9999 { unimplemented!() }
    #[verifier::external_body]
    fn is_before(&self, target: SolarDay) -> (r: bool) ensures r == (self.jdn() < target.jdn()) { unimplemented!() }
    #[verifier::external_body]
    fn is_after(&self, target: SolarDay) -> (r: bool) ensures r == (self.jdn() > target.jdn()) { unimplemented!() }
    #[verifier::external_body]
    fn eq(&self, other: &SolarDay) -> (r: bool) ensures r == (self.jdn() == other.jdn()) { unimplemented!() }
    // C02 contract: the lunar day of a civil day is the same day
    #[verifier::external_body]
    fn get_lunar_day(&self) -> (r: LunarDay) ensures r.jdn() == self.jdn() { unimplemented!() }
    #[verifier::external_body]
    fn next(&self, n: isize) -> (r: SolarDay) ensures r.jdn() == self.jdn() + n { unimplemented!() }
    #[verifier::external_body]
    fn subtract(&self, target: SolarDay) -> (r: isize) ensures r == self.jdn() - target.jdn(), -4000000 <= r <= 4000000 { unimplemented!() }
    // V (C06 c06_term_search): the governing term
    #[verifier::external_body]
    fn get_term(&self) -> (r: SolarTerm)
        ensures r.k() == self.gk(), r.k() >= 25, TD(r.k()) <= self.jdn(), self.jdn() - TD(r.k()) <= 16,
    { unimplemented!() }

    //@EXTRACT file=src/tyme/solar.rs impl="impl SolarDay" fn=get_nine_day
    //@sig
        ensures
            (match r { Some(x) => Some((x.nine_idx(), x.day_idx())), None => None }) ==
            nine_spec(self.jdn(), TD(24 * self.y() + 24), TD(24 * self.y())),
    //@END

    //@EXTRACT file=src/tyme/solar.rs impl="impl SolarDay" fn=get_dog_day
    //@sig
        requires -3000000 <= TD(24 * self.y() + 12) <= 6000000, -3000000 <= TD(24 * self.y() + 15) <= 6000000,
        ensures
            (match r { Some(x) => Some((x.dog_idx(), x.day_idx())), None => None }) ==
            dog_spec(self.jdn(), TD(24 * self.y() + 12), TD(24 * self.y() + 15)),
    //@END

    //@EXTRACT file=src/tyme/solar.rs impl="impl SolarDay" fn=get_plum_rain_day
    //@sig
        requires -3000000 <= TD(24 * self.y() + 11) <= 6000000, -3000000 <= TD(24 * self.y() + 13) <= 6000000,
        ensures
            (match r { Some(x) => Some((x.pr_idx(), x.day_idx())), None => None }) ==
            plum_spec(self.jdn(), TD(24 * self.y() + 11), TD(24 * self.y() + 13)),
    //@END

    //@EXTRACT file=src/tyme/solar.rs impl="impl SolarDay" fn=get_phenology_day
    //@sig
        ensures pentad_spec(self.jdn(), self.gk()) == (r.ph_idx(), r.day_idx()),
    //@END
}

} // verus!
fn main() {}
