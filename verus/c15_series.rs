// C15 (V): SolarDay::get_nine_day and SolarDay::get_phenology_day extracted verbatim from src/tyme/solar.rs,
// against spec functions written from the property text, over an UNINTERPRETED term-day table TD(k)
// (k = 24*year + index) - the proof holds for any term table.
//   nine:   the 81 days from each winter-solstice day, nine days each, and no other day
//   pentad: three per term: days 0-4, 5-9, 10+ of the term, with the day index inside the pentad
// (get_dog_day / get_plum_rain_day go through `LoopTyme: From<HeavenStem>` conversions of name-table objects and
//  get_hide_heaven_stem_day through str slicing: exhaustive execution only, see evidence.)
// Callee contracts (external_body): term day (L-TD), SolarDay::is_before / next / subtract (K, C01),
// SolarDay::get_term (V, C06), Nine::from_index / Phenology::from_index (K, C11 generated cycle harnesses).
use vstd::prelude::*;
verus! {
global size_of usize == 8;

pub uninterp spec fn TD(k: int) -> int;

pub open spec fn nine_spec(n: int, w1: int, w0: int) -> Option<(int, int)> {
    let ws = if w1 <= n { w1 } else { w0 };
    if ws <= n && n - ws < 81 { Some(((n - ws) / 9, (n - ws) % 9)) } else { None }
}
pub open spec fn pentad_spec(n: int, k: int) -> (int, int) {
    let di = n - TD(k);
    let p = if di / 5 > 2 { 2 } else { di / 5 };
    ((k % 24) * 3 + p, di - 5 * p)
}

#[verifier::external_body]
pub struct SolarDay { _p: u8 }
impl Clone for SolarDay { #[verifier::external_body] fn clone(&self) -> Self { unimplemented!() } }
impl Copy for SolarDay {}
#[verifier::external_body]
pub struct SolarTerm { _p: u8 }
#[verifier::external_body]
pub struct JulianDay { _p: u8 }
#[verifier::external_body]
pub struct Nine { _p: u8 }
#[verifier::external_body]
pub struct NineDay { _p: u8 }
#[verifier::external_body]
pub struct Phenology { _p: u8 }
#[verifier::external_body]
pub struct PhenologyDay { _p: u8 }

impl JulianDay {
    pub uninterp spec fn src_k(&self) -> int;
    #[verifier::external_body]
    fn get_solar_day(&self) -> (r: SolarDay) ensures r.jdn() == TD(self.src_k()) { unimplemented!() }
}
impl SolarTerm {
    pub uninterp spec fn k(&self) -> int;
    #[verifier::external_body]
    fn from_index(year: isize, index: isize) -> (r: Self)
        requires 1 <= year <= 10000, 0 <= index < 24,
        ensures r.k() == 24 * year + index,
    { unimplemented!() }
    #[verifier::external_body]
    fn get_julian_day(&self) -> (r: JulianDay) ensures r.src_k() == self.k() { unimplemented!() }
    #[verifier::external_body]
    fn get_index(&self) -> (r: usize) requires self.k() >= 0, ensures r == self.k() % 24 { unimplemented!() }
}
impl Nine {
    pub uninterp spec fn idx(&self) -> int;
    #[verifier::external_body]
    fn from_index(index: isize) -> (r: Self) ensures r.idx() == index % 9 { unimplemented!() }
}
impl NineDay {
    pub uninterp spec fn nine_idx(&self) -> int;
    pub uninterp spec fn day_idx(&self) -> int;
    #[verifier::external_body]
    fn new(nine: Nine, day_index: usize) -> (r: Self) ensures r.nine_idx() == nine.idx(), r.day_idx() == day_index { unimplemented!() }
}
impl Phenology {
    pub uninterp spec fn idx(&self) -> int;
    #[verifier::external_body]
    fn from_index(index: isize) -> (r: Self) ensures r.idx() == index % 72 { unimplemented!() }
}
impl PhenologyDay {
    pub uninterp spec fn ph_idx(&self) -> int;
    pub uninterp spec fn day_idx(&self) -> int;
    #[verifier::external_body]
    fn new(phenology: Phenology, day_index: usize) -> (r: Self) ensures r.ph_idx() == phenology.idx(), r.day_idx() == day_index { unimplemented!() }
}

impl SolarDay {
    pub uninterp spec fn jdn(&self) -> int;
    pub uninterp spec fn y(&self) -> int;
    /// number of the governing term (the latest term whose day is on or before this day; C06)
    pub uninterp spec fn gk(&self) -> int;
    #[verifier::external_body]
    fn get_year(&self) -> (r: isize) ensures r == self.y(), 1 <= r <= 9999 { unimplemented!() }
    #[verifier::external_body]
    fn is_before(&self, target: SolarDay) -> (r: bool) ensures r == (self.jdn() < target.jdn()) { unimplemented!() }
    #[verifier::external_body]
    fn next(&self, n: isize) -> (r: SolarDay) ensures r.jdn() == self.jdn() + n { unimplemented!() }
    #[verifier::external_body]
    fn subtract(&self, target: SolarDay) -> (r: isize) ensures r == self.jdn() - target.jdn(), -4000000 <= r <= 4000000 { unimplemented!() }
    // V (C06 c06_term_search): the governing term
    #[verifier::external_body]
    fn get_term(&self) -> (r: SolarTerm)
        ensures r.k() == self.gk(), r.k() >= 25, TD(r.k()) <= self.jdn(), self.jdn() - TD(r.k()) <= 16,
    { unimplemented!() }

    //@EXTRACT file=src/tyme/solar.rs impl="impl SolarDay" fn=get_nine_day
    //@sig
        ensures
            (match r { Some(x) => Some((x.nine_idx(), x.day_idx())), None => None }) ==
            nine_spec(self.jdn(), TD(24 * self.y() + 24), TD(24 * self.y())),
    //@END

    //@EXTRACT file=src/tyme/solar.rs impl="impl SolarDay" fn=get_phenology_day
    //@sig
        ensures pentad_spec(self.jdn(), self.gk()) == (r.ph_idx(), r.day_idx()),
    //@END
}

} // verus!
fn main() {}
