// C02 (V): SolarDay::get_lunar_day and LunarDay::new extracted verbatim.
// Abstraction: lunar months are numbered by an absolute ordinal o; FIRST(o) is the day number of the
// month's first day, CNT(o) its length. Both UNINTERPRETED; the only facts used are the leaf contract
// L-NEW: tiling FIRST(o+1) == FIRST(o) + CNT(o) and 29 <= CNT(o) <= 30 (checked by execution over every
// lunation; the four reform-year breaks are known findings and excluded by `tiles`).
//   get_lunar_day: returns day d of the month o with FIRST(o) + d - 1 == jdn(self), 1 <= d <= CNT(o);
//                  the final LunarDay::from_ymd(..) is never refused (its precondition is proved)
//   LunarDay::new: accepts exactly 1 <= day <= CNT
// Callee contracts (external_body): LunarMonth::from_ym / next (V, c03_month_step), SolarDay::subtract (K, C01),
// first day / count getters (L-NEW).
use vstd::prelude::*;
verus! {

pub spec const O_MIN: int = 0int;          // first month of lunar year 0
pub uninterp spec fn O_MAX() -> int;       // last month of lunar year 9999
pub uninterp spec fn FIRST(o: int) -> int;
pub uninterp spec fn CNT(o: int) -> int;
pub uninterp spec fn ord_of(y: int, mwl: int) -> int;
/// the stretch of ordinals [lo, hi] tiles (no reform-year break inside)
pub open spec fn tiles(lo: int, hi: int) -> bool {
    forall|o: int| lo <= o < hi ==> #[trigger] FIRST(o + 1) == FIRST(o) + CNT(o)
}
pub open spec fn lens(lo: int, hi: int) -> bool {
    forall|o: int| lo <= o <= hi ==> 29 <= #[trigger] CNT(o) <= 30
}

#[verifier::external_body]
pub struct SolarDay { _p: u8 }
#[verifier::external_body]
pub struct JulianDay { _p: u8 }
#[verifier::external_body]
pub struct LunarMonth { _p: u8 }
impl Clone for LunarMonth { #[verifier::external_body] fn clone(&self) -> Self { unimplemented!() } }
impl Copy for LunarMonth {}
#[verifier::external_body]
pub struct LunarDay { _p: u8 }
#[verifier::external_body]
fn verif_msg() -> String { unimplemented!() }

impl JulianDay {
    pub uninterp spec fn n(&self) -> int;
    #[verifier::external_body]
    fn get_solar_day(&self) -> (r: SolarDay) ensures r.jdn() == self.n() { unimplemented!() }
}

impl LunarMonth {
    pub uninterp spec fn ord(&self) -> int;
    pub uninterp spec fn yr(&self) -> int;
    pub uninterp spec fn mwl(&self) -> int;
    #[verifier::external_body]
    pub proof fn axiom_id(&self) ensures ord_of(self.yr(), self.mwl()) == self.ord() { unimplemented!() }
    // V (c03_month_step) + L-NEW: a regular month number is always accepted
    #[verifier::external_body]
    fn from_ym(year: isize, month: isize) -> (r: Self)
        requires 0 <= year <= 9999, 1 <= month <= 12,
        ensures r.yr() == year, r.mwl() == month, O_MIN <= r.ord() <= O_MAX(),
    { unimplemented!() }
    // V (c03_month_step): the ordinal moves by exactly n
    #[verifier::external_body]
    fn next(&self, n: isize) -> (r: Self)
        requires O_MIN <= self.ord() + n <= O_MAX(), -1 <= n <= 1,
        ensures r.ord() == self.ord() + n,
    { unimplemented!() }
    #[verifier::external_body]
    fn get_first_julian_day(&self) -> (r: JulianDay) ensures r.n() == FIRST(self.ord()) { unimplemented!() }
    #[verifier::external_body]
    fn get_day_count(&self) -> (r: usize) ensures r == CNT(self.ord()) { unimplemented!() }
    #[verifier::external_body]
    fn get_year(&self) -> (r: isize) ensures r == self.yr() { unimplemented!() }
    #[verifier::external_body]
    fn get_month_with_leap(&self) -> (r: isize) ensures r == self.mwl() { unimplemented!() }
}

impl LunarDay {
    pub uninterp spec fn month_ord(&self) -> int;
    pub uninterp spec fn day(&self) -> int;
    // the unwrap of LunarDay::new: accepted <=> the day exists in the month (proved below for `new`)
    #[verifier::external_body]
    fn from_ymd(year: isize, month: isize, day: usize) -> (r: Self)
        requires 1 <= day <= CNT(ord_of(year as int, month as int)),
        ensures r.month_ord() == ord_of(year as int, month as int), r.day() == day,
    { unimplemented!() }
}

impl SolarDay {
    pub uninterp spec fn jdn(&self) -> int;
    pub uninterp spec fn y(&self) -> int;
    pub uninterp spec fn mo(&self) -> int;
    #[verifier::external_body]
    fn get_year(&self) -> (r: isize) ensures r == self.y(), 1 <= r <= 9999 { unimplemented!() }
    #[verifier::external_body]
    fn get_month(&self) -> (r: usize) ensures r == self.mo(), 1 <= r <= 12 { unimplemented!() }
    #[verifier::external_body]
    fn subtract(&self, target: SolarDay) -> (r: isize) ensures r == self.jdn() - target.jdn() { unimplemented!() }

    //@EXTRACT file=src/tyme/solar.rs impl="impl SolarDay" fn=get_lunar_day loops=2
    //@sig
        requires
            tiles(O_MIN, O_MAX()), lens(O_MIN, O_MAX()),
            FIRST(O_MIN) <= self.jdn() < FIRST(O_MAX()) + CNT(O_MAX()),    // inside the tabulated lunar range
            -4000000 <= FIRST(O_MIN), FIRST(O_MAX()) <= 6000000,
        ensures
            O_MIN <= r.month_ord() <= O_MAX(),
            FIRST(r.month_ord()) + r.day() - 1 == self.jdn(),
            1 <= r.day() <= CNT(r.month_ord()),
    //@loop 0
        invariant
            tiles(O_MIN, O_MAX()), lens(O_MIN, O_MAX()), O_MIN <= m.ord() <= O_MAX(),
            days == self.jdn() - FIRST(m.ord()), FIRST(O_MIN) <= self.jdn(),
            -4000000 <= FIRST(O_MIN), FIRST(O_MAX()) <= 6000000, self.jdn() < FIRST(O_MAX()) + CNT(O_MAX()),
        decreases (if days < 0 { -days } else { 0int }),
    //@loop_start 0
        proof { lemma_first_mono(O_MIN, m.ord()); assert(FIRST(m.ord() - 1 + 1) == FIRST(m.ord() - 1) + CNT(m.ord() - 1)); }
    //@loop_end 0
        proof { assert(29 <= CNT(m.ord()) <= 30); }
    //@loop 1
        invariant
            tiles(O_MIN, O_MAX()), lens(O_MIN, O_MAX()), O_MIN <= m.ord() <= O_MAX(),
            days == self.jdn() - FIRST(m.ord()), self.jdn() < FIRST(O_MAX()) + CNT(O_MAX()),
            0 <= days, -4000000 <= FIRST(O_MIN), FIRST(O_MAX()) <= 6000000,
        decreases days,
    //@loop_start 1
        proof { lemma_first_mono(m.ord(), O_MAX()); lemma_first_mono(O_MIN, m.ord()); assert(FIRST(m.ord() + 1) == FIRST(m.ord()) + CNT(m.ord())); }
    //@loop_end 1
        proof { }
    //@after_loop 1
        proof { m.axiom_id(); }
    //@END
}

pub proof fn lemma_first_mono(a: int, b: int)
    requires O_MIN <= a <= b <= O_MAX(), tiles(O_MIN, O_MAX()), lens(O_MIN, O_MAX()),
    ensures FIRST(a) <= FIRST(b), a < b ==> FIRST(a) + CNT(a) <= FIRST(b),
    decreases b - a,
{
    if a < b { lemma_first_mono(a, b - 1); assert(FIRST(b - 1 + 1) == FIRST(b - 1) + CNT(b - 1)); }
}

// bijection from tiling: the intervals [FIRST(o), FIRST(o)+CNT(o)) are pairwise disjoint, so a day
// number has at most one (month, day) representation -> both round trips are identities
pub proof fn lemma_unique_month(n: int, o1: int, o2: int)
    requires tiles(O_MIN, O_MAX()), lens(O_MIN, O_MAX()), O_MIN <= o1 <= O_MAX(), O_MIN <= o2 <= O_MAX(),
             FIRST(o1) <= n < FIRST(o1) + CNT(o1), FIRST(o2) <= n < FIRST(o2) + CNT(o2),
    ensures o1 == o2,
{
    if o1 < o2 { lemma_first_mono(o1, o2); }
    if o2 < o1 { lemma_first_mono(o2, o1); }
}

// consecutive civil days -> day+1 in the same month or day 1 of the next month
pub proof fn lemma_consecutive(n: int, o: int, d: int)
    requires tiles(O_MIN, O_MAX()), lens(O_MIN, O_MAX()), O_MIN <= o < O_MAX(), 1 <= d <= CNT(o), FIRST(o) + d - 1 == n,
    ensures (d < CNT(o) ==> FIRST(o) + (d + 1) - 1 == n + 1) && (d == CNT(o) ==> FIRST(o + 1) + 1 - 1 == n + 1),
{
    assert(FIRST(o + 1) == FIRST(o) + CNT(o));
}

// order: (ordinal, day) lexicographic <=> day-number order
pub proof fn lemma_lunar_order(o1: int, d1: int, o2: int, d2: int)
    requires tiles(O_MIN, O_MAX()), lens(O_MIN, O_MAX()), O_MIN <= o1 <= O_MAX(), O_MIN <= o2 <= O_MAX(),
             1 <= d1 <= CNT(o1), 1 <= d2 <= CNT(o2),
    ensures ((o1 < o2) || (o1 == o2 && d1 < d2)) == (FIRST(o1) + d1 - 1 < FIRST(o2) + d2 - 1),
{
    if o1 < o2 { lemma_first_mono(o1, o2); }
    if o2 < o1 { lemma_first_mono(o2, o1); }
}

} // verus!
fn main() {}
