// C11 (V): AbstractCulture::index_of extracted verbatim: the Euclidean remainder for EVERY isize index and EVERY
// table size 1..isize::MAX (symbolic size; the Kani cycle harnesses re-check it per concrete table).
// (SolarTime::next is the Verus unit c12_time_next: extraction rule E8 desugars its `ts %= 60`.)
use vstd::prelude::*;
verus! {
//@SPECLIB

pub struct AbstractCulture {}

impl AbstractCulture {
    //@EXTRACT file=src/tyme/mod.rs impl="impl AbstractCulture" fn=index_of
    //@sig
        requires 0 < size <= isize::MAX as usize,
        ensures r == (index as int) % (size as int), 0 <= r < size,
    //@body_start
        proof {
            lemma_trunc_rem(index as int, size as int);
            if index < 0 { lemma_trunc_rem(-(index as int), size as int); }
        }
    //@END
}

// group laws on indices, from the contract: next(a).next(b) == next(a+b), next(a).next(-a) == id, next(0) == id
pub proof fn lemma_cycle_group(i: int, a: int, b: int, size: int)
    requires size > 0,
    ensures
        ((i % size) + 0) % size == i % size,
        (((i + a) % size) + b) % size == (i + a + b) % size,
        (((i + a) % size) + (-a)) % size == i % size,
{
    vstd::arithmetic::div_mod::lemma_mod_twice(i, size);
    vstd::arithmetic::div_mod::lemma_add_mod_noop((i + a) % size, b, size);
    vstd::arithmetic::div_mod::lemma_add_mod_noop(i + a, b, size);
    vstd::arithmetic::div_mod::lemma_mod_twice(i + a, size);
    vstd::arithmetic::div_mod::lemma_add_mod_noop((i + a) % size, -a, size);
    vstd::arithmetic::div_mod::lemma_add_mod_noop(i + a, -a, size);
}

} // verus!
fn main() {}
