// C20 (V): SolarFestival::next and LunarFestival::next extracted verbatim from src/tyme/festival.rs: stepping a festival
// by n looks up the festival n places further along the festival list, carrying into later or earlier years.
// With position p = year * (list length) + index the lookup is (floor((p+n)/len), (p+n) mod len) for EVERY n.
// The lookup itself (`from_index`: regex over the packed table) is an uninterpreted function here; it is executed for every
// (year, index) by the leaf contract c20_festivals. AbstractCulture::index_of is the real body (as in c11_index_of).
use vstd::prelude::*;
verus! {
global size_of usize == 8;
//@SPECLIB

pub struct AbstractCulture {}
impl AbstractCulture {
    #[verifier::external_body]
    fn new() -> (r: Self) { unimplemented!() }
    //@EXTRACT file=src/tyme/mod.rs impl="impl AbstractCulture" fn=index_of
    //@sig
        requires 0 < size <= isize::MAX as usize,
        ensures r == (index as int) % (size as int), 0 <= r < size,
    //@body_start
        proof {
            lemma_trunc_rem(index as int, size as int);
            if index < 0 { lemma_trunc_rem(-(index as int), size as int); }
        }
    //@END
}

//@STATIC file=src/tyme/festival.rs static=SOLAR_FESTIVAL_NAMES
//@STATIC file=src/tyme/festival.rs static=LUNAR_FESTIVAL_NAMES

#[verifier::external_body]
pub struct SolarDay { _p: u8 }
impl SolarDay {
    pub uninterp spec fn y(&self) -> int;
    #[verifier::external_body]
    fn get_year(&self) -> (r: isize) ensures r == self.y(), 1 <= r <= 9999 { unimplemented!() }
}
#[verifier::external_body]
pub struct LunarDay { _p: u8 }
impl LunarDay {
    pub uninterp spec fn y(&self) -> int;
    #[verifier::external_body]
    fn get_year(&self) -> (r: isize) ensures r == self.y(), -1 <= r <= 9999 { unimplemented!() }
}
#[verifier::external_body]
pub struct FestivalType { _p: u8 }
#[verifier::external_body]
pub struct SolarTerm { _p: u8 }

//@STRUCT file=src/tyme/festival.rs struct=SolarFestival
//@STRUCT file=src/tyme/festival.rs struct=LunarFestival

pub uninterp spec fn solar_lookup(year: int, index: int) -> Option<SolarFestival>;
pub uninterp spec fn lunar_lookup(year: int, index: int) -> Option<LunarFestival>;

impl SolarFestival {
    #[verifier::external_body]
    fn from_index(year: isize, index: usize) -> (r: Option<Self>) ensures r == solar_lookup(year as int, index as int) { unimplemented!() }
    //@EXTRACT file=src/tyme/festival.rs impl="impl SolarFestival" fn=get_index
    //@sig
        ensures r == self.index,
    //@END
    //@EXTRACT file=src/tyme/festival.rs impl="impl SolarFestival" fn=next
    //@sig
        requires self.index < 10, -0x4000_0000_0000 < n < 0x4000_0000_0000,
        ensures ({ let p = self.day.y() * 10 + self.index + n; p >= 0 ==> r == solar_lookup(p / 10, p % 10) }),
    //@END
}
impl LunarFestival {
    #[verifier::external_body]
    fn from_index(year: isize, index: usize) -> (r: Option<Self>) ensures r == lunar_lookup(year as int, index as int) { unimplemented!() }
    #[verifier::external_body]
    fn get_day(&self) -> (r: LunarDay) ensures r.y() == self.day.y() { unimplemented!() }
    //@EXTRACT file=src/tyme/festival.rs impl="impl LunarFestival" fn=get_index
    //@sig
        ensures r == self.index,
    //@END
    //@EXTRACT file=src/tyme/festival.rs impl="impl LunarFestival" fn=next
    //@sig
        requires self.index < 13, -0x4000_0000_0000 < n < 0x4000_0000_0000,
        ensures ({ let p = self.day.y() * 13 + self.index + n; p >= 0 ==> r == lunar_lookup(p / 13, p % 13) }),
    //@END
}

} // verus!
fn main() {}
