// C13 (V): SixtyCycleYear::get_months and SixtyCycleMonth::get_days extracted verbatim from src/tyme/sixtycycle.rs.
//   a sexagenary year lists exactly its 12 months in order (positions 12*year .. 12*year + 11);
//   a sexagenary month lists exactly the days from its Jie day to the day before the next Jie day, in order.
// Months are numbered by position p = 12 * year + index in year; F(p) is the day number of the Jie day that opens month p
// (UNINTERPRETED: the proof holds for any strictly increasing F). Callee contracts (external_body):
//   SixtyCycleYear::get_first_month -> position 12*year (K: c08_k_first_month_args), SixtyCycleMonth::next (K: c08_k_month_next),
//   SixtyCycleMonth::get_first_day -> the day F(p), belonging to month p (K: c08_k_from_solar_day on a Jie day),
//   SixtyCycleDay::next(1) -> the next day, whose month is p or p+1 according to F (K: c08_k_from_solar_day + C06),
//   SixtyCycleMonth == : equality of (year pillar, month pillar) names (the real impl compares to_string()).
// SixtyCycleDay::get_hours: exactly the 12 double-hour instants from 23:00 of the previous day, 7200 s apart, in order
//   (callees: SolarDay::next (K, C01), SolarTime::from_ymd_hms (K), SixtyCycleHour::from_solar_time keeps the instant
//    (K: c09_k_from_solar_time), SixtyCycleHour::next moves the instant by n seconds (V: c12_time_next)).
use vstd::prelude::*;
verus! {
global size_of usize == 8;

pub uninterp spec fn F(p: int) -> int;
/// what the real `==` compares: the pair (year pillar, month pillar); the month pillar advances by one per position
pub uninterp spec fn month_pillar0() -> int;
pub open spec fn month_key(p: int) -> (int, int) { ((p / 12 - 4) % 60, (month_pillar0() + p) % 60) }

#[verifier::external_body]
pub struct SixtyCycle { _p: u8 }

//@STRUCT file=src/tyme/sixtycycle.rs struct=SixtyCycleYear derive="Clone, Copy"
//@STRUCT file=src/tyme/sixtycycle.rs struct=SixtyCycleMonth

#[verifier::external_body]
pub struct SolarDay { _p: u8 }
impl Clone for SolarDay { #[verifier::external_body] fn clone(&self) -> Self { unimplemented!() } }
impl Copy for SolarDay {}
#[verifier::external_body]
pub struct SolarTime { _p: u8 }
#[verifier::external_body]
pub struct SixtyCycleHour { _p: u8 }
/// day number of a civil date (C01)
pub uninterp spec fn JDN(y: int, m: int, d: int) -> int;
impl SolarDay {
    pub uninterp spec fn y(&self) -> int;
    pub uninterp spec fn m(&self) -> int;
    pub uninterp spec fn d(&self) -> int;
    pub open spec fn jdn(&self) -> int { JDN(self.y(), self.m(), self.d()) }
    #[verifier::external_body]
    fn get_year(&self) -> (r: isize) ensures r == self.y() { unimplemented!() }
    #[verifier::external_body]
    fn get_month(&self) -> (r: usize) ensures r == self.m() { unimplemented!() }
    #[verifier::external_body]
    fn get_day(&self) -> (r: usize) ensures r == self.d() { unimplemented!() }
    #[verifier::external_body]
    fn next(&self, n: isize) -> (r: SolarDay) ensures r.jdn() == self.jdn() + n { unimplemented!() }
}
impl SolarTime {
    /// seconds since day number 0, 00:00:00
    pub uninterp spec fn abs(&self) -> int;
    #[verifier::external_body]
    fn from_ymd_hms(year: isize, month: usize, day: usize, hour: usize, minute: usize, second: usize) -> (r: Self)
        requires hour < 24, minute < 60, second < 60,
        ensures r.abs() == 86400 * JDN(year as int, month as int, day as int) + 3600 * hour + 60 * minute + second,
    { unimplemented!() }
}
impl Clone for SixtyCycleHour {
    #[verifier::external_body]
    fn clone(&self) -> (r: Self) ensures r.abs() == self.abs() { unimplemented!() }
}
impl SixtyCycleHour {
    pub uninterp spec fn abs(&self) -> int;
    #[verifier::external_body]
    fn from_solar_time(solar_time: SolarTime) -> (r: Self) ensures r.abs() == solar_time.abs() { unimplemented!() }
    #[verifier::external_body]
    fn next(&self, n: isize) -> (r: Self) ensures r.abs() == self.abs() + n { unimplemented!() }
}

#[verifier::external_body]
pub struct SixtyCycleDayRest { _p: u8 }
//@STRUCT file=src/tyme/sixtycycle.rs struct=SixtyCycleDay

impl Clone for SixtyCycleMonth {
    #[verifier::external_body]
    fn clone(&self) -> (r: Self) ensures r.pos() == self.pos() { unimplemented!() }
}
impl Clone for SixtyCycleDay {
    #[verifier::external_body]
    fn clone(&self) -> (r: Self) ensures r.jdn() == self.jdn(), r.mpos() == self.mpos() { unimplemented!() }
}
impl PartialEq for SixtyCycleMonth {
    #[verifier::external_body]
    fn eq(&self, other: &Self) -> (r: bool) ensures r == (month_key(self.pos()) == month_key(other.pos())) { unimplemented!() }
}

impl SixtyCycleDay {
    //@EXTRACT file=src/tyme/sixtycycle.rs impl="impl SixtyCycleDay" fn=get_hours loops=1
    //@sig
        ensures r@.len() == 12, forall|j: int| 0 <= j < 12 ==> (#[trigger] r@[j]).abs() == 86400 * (self.solar_day.jdn() - 1) + 82800 + 7200 * j,
    //@loop 0
        invariant
            l@.len() == verif_i + 1, h.abs() == 86400 * (self.solar_day.jdn() - 1) + 82800 + 7200 * verif_i,
            forall|j: int| 0 <= j < l@.len() ==> (#[trigger] l@[j]).abs() == 86400 * (self.solar_day.jdn() - 1) + 82800 + 7200 * j,
    //@END
    pub uninterp spec fn jdn(&self) -> int;
    pub uninterp spec fn mpos(&self) -> int;
    #[verifier::external_body]
    fn get_sixty_cycle_month(&self) -> (r: SixtyCycleMonth) ensures r.pos() == self.mpos() { unimplemented!() }
    #[verifier::external_body]
    fn next(&self, n: isize) -> (r: SixtyCycleDay)
        requires n == 1, F(self.mpos()) <= self.jdn() < F(self.mpos() + 1) < F(self.mpos() + 2),
        ensures r.jdn() == self.jdn() + 1, r.mpos() == (if self.jdn() + 1 < F(self.mpos() + 1) { self.mpos() } else { self.mpos() + 1 }),
    { unimplemented!() }
}

impl SixtyCycleYear {
    #[verifier::external_body]
    fn get_first_month(&self) -> (r: SixtyCycleMonth) ensures r.pos() == 12 * self.year { unimplemented!() }

    //@EXTRACT file=src/tyme/sixtycycle.rs impl="impl SixtyCycleYear" fn=get_months loops=1
    //@sig
        ensures r@.len() == 12, forall|j: int| 0 <= j < 12 ==> (#[trigger] r@[j]).pos() == 12 * self.year + j,
    //@loop 0
        invariant
            1 <= i <= 12, l@.len() == i, m.pos() == 12 * self.year,
            forall|j: int| 0 <= j < l@.len() ==> (#[trigger] l@[j]).pos() == 12 * self.year + j,
    //@END
}

impl SixtyCycleMonth {
    pub uninterp spec fn pos(&self) -> int;
    #[verifier::external_body]
    fn next(&self, n: isize) -> (r: SixtyCycleMonth) ensures r.pos() == self.pos() + n { unimplemented!() }
    #[verifier::external_body]
    fn get_first_day(&self) -> (r: SixtyCycleDay) ensures r.jdn() == F(self.pos()), r.mpos() == self.pos() { unimplemented!() }

    //@EXTRACT file=src/tyme/sixtycycle.rs impl="impl SixtyCycleMonth" fn=get_days loops=1
    //@sig
        requires F(self.pos()) < F(self.pos() + 1) < F(self.pos() + 2), F(self.pos() + 1) - F(self.pos()) <= 64,
        ensures
            r@.len() == F(self.pos() + 1) - F(self.pos()),
            forall|j: int| 0 <= j < r@.len() ==> (#[trigger] r@[j]).jdn() == F(self.pos()) + j && r@[j].mpos() == self.pos(),
    //@loop 0
        invariant
            F(self.pos()) < F(self.pos() + 1) < F(self.pos() + 2),
            d.jdn() == F(self.pos()) + l@.len(),
            (d.mpos() == self.pos() && d.jdn() < F(self.pos() + 1)) || (d.mpos() == self.pos() + 1 && d.jdn() == F(self.pos() + 1)),
            forall|j: int| 0 <= j < l@.len() ==> (#[trigger] l@[j]).jdn() == F(self.pos()) + j && l@[j].mpos() == self.pos(),
        decreases F(self.pos() + 1) - d.jdn(),
    //@body_start
        proof { lemma_key_step(self.pos()); }
    //@END
}

/// consecutive months never compare equal: the month pillar moves by one
pub proof fn lemma_key_step(p: int)
    ensures month_key(p + 1) != month_key(p),
{
    let a = (month_pillar0() + p) % 60;
    let b = (month_pillar0() + p + 1) % 60;
    assert(b == (if a == 59 { 0 } else { a + 1 }));
}

} // verus!
fn main() {}
