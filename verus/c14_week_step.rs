// C14 (V): SolarWeek::next (src/tyme/solar.rs) and LunarWeek::next (src/tyme/lunar.rs) extracted verbatim (both loops, the
// month-border correction).
// Abstraction: civil months are numbered ord = 12*year + month - 1; F1(ord) is the day number of the month's first
// day and LEN(ord) its number of days, UNINTERPRETED except that consecutive months abut and a month has 21..31 days.
// A week (ord, index, start) begins on day F1(ord) - off(ord, start) + 7*index, off = (weekday of day 1 - start) mod 7.
//   next(n): the first day moves by exactly 7n, for every n, and the final from_ym(..) is never refused
//   get_days: the seven consecutive days from the first day; get_index_in_year: whole weeks since the week 0 of January (terminates)
//   lemma_week_shape: a week starts on the chosen weekday; weeks 0..wc-1 cover the month; lemma_year_first: the index in year is defined
// Callee contracts (external_body): SolarMonth::get_week_count == ceil((off + LEN)/7) (f64 ceil: leaf, checked for
// every month x 7 starts by c14_solar_weeks), SolarMonth::next (K, c11_k_month_next), SolarDay::from_ymd day 1 (C01),
// SolarDay::get_week == (jdn+1) mod 7 (K, c07_k_week).
use vstd::prelude::*;
verus! {
global size_of usize == 8;

pub uninterp spec fn F1(ord: int) -> int;
pub uninterp spec fn LEN(ord: int) -> int;
pub spec const ORD_MIN: int = 12int;
pub spec const ORD_MAX: int = 12int * 9999 + 11;
#[verifier::external_body]
pub proof fn axiom_months(o: int)      // C01: month lengths are day-number differences, 21..31 days
    ensures F1(o + 1) == F1(o) + LEN(o), 21 <= LEN(o) <= 31,
{ unimplemented!() }

pub open spec fn off(o: int, s: int) -> int { (((F1(o) + 1) % 7) - s) % 7 }
pub open spec fn wc(o: int, s: int) -> int { (off(o, s) + LEN(o) + 6) / 7 }
pub open spec fn week_first(o: int, i: int, s: int) -> int { F1(o) - off(o, s) + 7 * i }

pub proof fn lemma_border(o: int, s: int)
    requires 0 <= s < 7,
    ensures
        off(o + 1, s) == (off(o, s) + LEN(o)) % 7,
        3 <= wc(o, s) <= 6,
        off(o + 1, s) == 0 ==> week_first(o + 1, 0, s) == week_first(o, wc(o, s), s),
        off(o + 1, s) != 0 ==> week_first(o + 1, 0, s) == week_first(o, wc(o, s) - 1, s),
{
    axiom_months(o);
}

/// the property's static clauses as consequences of the formulas: a week starts on the chosen weekday, the weeks 0..wc-1 of a
/// month cover every day of it, week 0 contains the first day and the last week the last day
pub proof fn lemma_week_shape(o: int, i: int, s: int)
    requires 0 <= s < 7,
    ensures
        (week_first(o, i, s) + 1) % 7 == s,
        week_first(o, 0, s) <= F1(o) <= week_first(o, 0, s) + 6,
        week_first(o, wc(o, s) - 1, s) <= F1(o) + LEN(o) - 1 <= week_first(o, wc(o, s) - 1, s) + 6,
        week_first(o, i + 1, s) == week_first(o, i, s) + 7,
{
    axiom_months(o);
}

#[verifier::external_body]
pub struct Week { _p: u8 }
impl Week {
    pub uninterp spec fn idx(&self) -> int;
    #[verifier::external_body]
    fn get_index(&self) -> (r: usize) ensures r == self.idx(), 0 <= r < 7 { unimplemented!() }
}
impl PartialEq for Week {
    #[verifier::external_body]
    fn eq(&self, other: &Self) -> (r: bool) ensures r == (self.idx() == other.idx()) { unimplemented!() }
}
#[verifier::external_body]
pub struct AbstractTyme { _p: u8 }
#[verifier::external_body]
pub struct SolarMonth { _p: u8 }
impl Clone for SolarMonth { #[verifier::external_body] fn clone(&self) -> Self { unimplemented!() } }
impl Copy for SolarMonth {}
#[verifier::external_body]
pub struct SolarDay { _p: u8 }

impl SolarMonth {
    pub uninterp spec fn ord(&self) -> int;
    #[verifier::external_body]
    fn next(&self, n: isize) -> (r: Self)
        requires ORD_MIN <= self.ord() + n <= ORD_MAX,
        ensures r.ord() == self.ord() + n,
    { unimplemented!() }
    #[verifier::external_body]
    fn get_week_count(&self, start: usize) -> (r: usize) requires start < 7, ensures r == wc(self.ord(), start as int) { unimplemented!() }
    #[verifier::external_body]
    fn get_year(&self) -> (r: isize) ensures r == self.ord() / 12, ORD_MIN <= self.ord() <= ORD_MAX ==> 1 <= r <= 9999 { unimplemented!() }
    #[verifier::external_body]
    fn get_month(&self) -> (r: usize) ensures r == self.ord() % 12 + 1 { unimplemented!() }
}
impl Clone for SolarDay { #[verifier::external_body] fn clone(&self) -> (r: Self) ensures r == *self { unimplemented!() } }
impl Copy for SolarDay {}
impl PartialEq for SolarDay {
    #[verifier::external_body]
    fn eq(&self, other: &Self) -> (r: bool) ensures r == (self.jdn() == other.jdn()) { unimplemented!() }
}
impl SolarDay {
    pub uninterp spec fn jdn(&self) -> int;
    #[verifier::external_body]
    fn next(&self, n: isize) -> (r: Self) ensures r.jdn() == self.jdn() + n { unimplemented!() }   // K: c01_k5_next
    #[verifier::external_body]
    fn from_ymd(year: isize, month: usize, day: usize) -> (r: Self)
        requires 1 <= year <= 9999, 1 <= month <= 12, day == 1,
        ensures r.jdn() == F1(12 * year + month - 1),
    { unimplemented!() }
    #[verifier::external_body]
    fn get_week(&self) -> (r: Week) ensures r.idx() == (self.jdn() + 1) % 7 { unimplemented!() }
}

//@STRUCT file=src/tyme/solar.rs struct=SolarWeek

impl SolarWeek {
    spec fn first(&self) -> int { week_first(self.month.ord(), self.index as int, self.start.idx()) }
    spec fn wf(&self) -> bool { ORD_MIN <= self.month.ord() <= ORD_MAX && 0 <= self.start.idx() < 7 && self.index < wc(self.month.ord(), self.start.idx()) }

    // the unwrap inside from_ym: accepted <=> index < week count of the month
    #[verifier::external_body]
    fn from_ym(year: isize, month: usize, index: usize, start: usize) -> (r: Self)
        requires 1 <= year <= 9999, 1 <= month <= 12, start < 7, index < wc(12 * year + month - 1, start as int),
        ensures r.month.ord() == 12 * year + month - 1, r.index == index, r.start.idx() == start,
    { unimplemented!() }

    // K (c14_k_solar_week_first_day): the first day of the week
    #[verifier::external_body]
    fn get_first_day(&self) -> (r: SolarDay) requires self.wf(), ensures r.jdn() == self.first() { unimplemented!() }
    //@EXTRACT file=src/tyme/solar.rs impl="impl SolarWeek" fn=get_year
    //@sig
        ensures r == self.month.ord() / 12, ORD_MIN <= self.month.ord() <= ORD_MAX ==> 1 <= r <= 9999,
    //@END
    //@EXTRACT file=src/tyme/solar.rs impl="impl SolarWeek" fn=get_days loops=1
    //@sig
        requires self.wf(),
        ensures r@.len() == 7, forall|j: int| 0 <= j < 7 ==> (#[trigger] r@[j]).jdn() == self.first() + j,
    //@loop 0
        invariant 1 <= i <= 7, l@.len() == i, d.jdn() == self.first(),
                  forall|j: int| 0 <= j < l@.len() ==> (#[trigger] l@[j]).jdn() == self.first() + j,
    //@END
    //@EXTRACT file=src/tyme/solar.rs impl="impl SolarWeek" fn=get_index_in_year loops=1
    //@sig
        requires self.wf(), 12 * 3 <= self.month.ord() <= 12 * 9990,
        ensures 7 * r == self.first() - week_first(12 * (self.month.ord() / 12), 0, self.start.idx()),
    //@body_start
        proof { lemma_year_first(self.month.ord(), self.index as int, self.start.idx()); lemma_border(12 * (self.month.ord() / 12), self.start.idx()); }
    //@loop 0
        invariant
            self.wf(), 12 * 3 <= self.month.ord() <= 12 * 9990, first_day.jdn() == self.first(),
            w.wf(), w.start.idx() == self.start.idx(), i <= 60,
            12 * (self.month.ord() / 12) <= w.month.ord() && w.month.ord() + w.index <= 12 * (self.month.ord() / 12) + i,
            w.first() == week_first(12 * (self.month.ord() / 12), 0, self.start.idx()) + 7 * i,
            w.first() <= self.first(), (self.first() - w.first()) % 7 == 0,
            self.first() - week_first(12 * (self.month.ord() / 12), 0, self.start.idx()) <= 7 * 56,
        decreases self.first() - w.first(),
    //@END

    //@EXTRACT file=src/tyme/solar.rs impl="impl Tyme for SolarWeek" fn=next loops=2
    //@sig
        requires
            self.wf(), -100000 <= n <= 100000,
            ORD_MIN + 8 <= self.month.ord() + n, self.month.ord() + n + 8 <= ORD_MAX,
            ORD_MIN + 8 <= self.month.ord(), self.month.ord() + 8 <= ORD_MAX,
        ensures
            r.wf(),
            r.first() == self.first() + 7 * n,
            r.start.idx() == self.start.idx(),
            n > 0 ==> self.month.ord() <= r.month.ord() && r.month.ord() + r.index <= self.month.ord() + self.index + n,
    //@body_start
        proof { lemma_border(self.month.ord(), self.start.idx()); }
    //@loop 0
        invariant
            self.wf(), n > 0, -100000 <= n <= 100000, start_index == self.start.idx(),
            self.month.ord() + n + 8 <= ORD_MAX, ORD_MIN + 8 <= self.month.ord(),
            self.month.ord() <= m.ord(), m.ord() + d <= self.month.ord() + self.index + n,
            0 <= d <= 200000, week_count == wc(m.ord(), start_index as int), self.index <= 5, 3 <= week_count <= 6,
            week_first(m.ord(), d as int, start_index as int) == self.first() + 7 * n,
        decreases d,
    //@loop_start 0
        proof { lemma_border(m.ord(), start_index as int); lemma_border(m.ord() + 1, start_index as int); }
    //@loop 1
        invariant
            self.wf(), n < 0, -100000 <= n <= 100000, start_index == self.start.idx(),
            ORD_MIN + 8 <= self.month.ord() + n, self.month.ord() + 8 <= ORD_MAX,
            m.ord() <= self.month.ord(), m.ord() - self.month.ord() >= (self.index + n) - d,
            -200000 <= d <= 6, self.index <= 5, d < wc(m.ord(), start_index as int),
            week_first(m.ord(), d as int, start_index as int) == self.first() + 7 * n,
        decreases -d + 10,
    //@loop_start 1
        proof { lemma_border(m.ord() - 1, start_index as int); lemma_border(m.ord(), start_index as int); }
    //@END
}


/// a week of year y starts on or after, and a whole number of weeks after, the week 0 of January of y; at most 56 weeks later
pub proof fn lemma_year_first(o: int, i: int, s: int)
    requires 0 <= s < 7, 0 <= i < wc(o, s), 12 <= o,
    ensures ({ let y0 = 12 * (o / 12); let yf = week_first(y0, 0, s);
               week_first(o, i, s) >= yf && (week_first(o, i, s) - yf) % 7 == 0 && week_first(o, i, s) - yf <= 7 * 56 }),
{
    let y0 = 12 * (o / 12);
    lemma_week_shape(o, i, s); lemma_week_shape(y0, 0, s); lemma_border(o, s);
    axiom_months(y0); axiom_months(y0 + 1); axiom_months(y0 + 2); axiom_months(y0 + 3); axiom_months(y0 + 4); axiom_months(y0 + 5);
    axiom_months(y0 + 6); axiom_months(y0 + 7); axiom_months(y0 + 8); axiom_months(y0 + 9); axiom_months(y0 + 10); axiom_months(y0 + 11);
    assert(y0 <= o <= y0 + 11);
    assert(F1(o) >= F1(y0));
    assert(F1(o) <= F1(y0) + 31 * 11);
}

// ---- LunarWeek::next: the same argument over lunar months (ordinal o, first day FL(o), length CL(o) in 29..30) ----
pub uninterp spec fn FL(o: int) -> int;
pub uninterp spec fn CL(o: int) -> int;
pub uninterp spec fn LO_MAX() -> int;
#[verifier::external_body]
pub proof fn axiom_lunar_months(o: int)      // L-NEW: tiling and 29/30 days (outside the reform-year breaks)
    ensures FL(o + 1) == FL(o) + CL(o), 29 <= CL(o) <= 30,
{ unimplemented!() }
pub open spec fn loff(o: int, s: int) -> int { (((FL(o) + 1) % 7) - s) % 7 }
pub open spec fn lwc(o: int, s: int) -> int { (loff(o, s) + CL(o) + 6) / 7 }
pub open spec fn lweek_first(o: int, i: int, s: int) -> int { FL(o) - loff(o, s) + 7 * i }
pub proof fn lemma_lborder(o: int, s: int)
    requires 0 <= s < 7,
    ensures
        loff(o + 1, s) == (loff(o, s) + CL(o)) % 7,
        5 <= lwc(o, s) <= 6,
        loff(o + 1, s) == 0 ==> lweek_first(o + 1, 0, s) == lweek_first(o, lwc(o, s), s),
        loff(o + 1, s) != 0 ==> lweek_first(o + 1, 0, s) == lweek_first(o, lwc(o, s) - 1, s),
{
    axiom_lunar_months(o);
}
#[verifier::external_body]
pub struct LunarMonth { _p: u8 }
impl Clone for LunarMonth { #[verifier::external_body] fn clone(&self) -> Self { unimplemented!() } }
impl Copy for LunarMonth {}
#[verifier::external_body]
pub struct LunarDay { _p: u8 }
pub uninterp spec fn lord_of(y: int, mwl: int) -> int;
impl LunarMonth {
    pub uninterp spec fn ord(&self) -> int;
    pub uninterp spec fn yr(&self) -> int;
    pub uninterp spec fn mwl(&self) -> int;
    #[verifier::external_body]
    pub proof fn axiom_id(&self) ensures lord_of(self.yr(), self.mwl()) == self.ord() { unimplemented!() }
    #[verifier::external_body]
    fn next(&self, n: isize) -> (r: Self)
        requires 0 <= self.ord() + n <= LO_MAX(),
        ensures r.ord() == self.ord() + n,
    { unimplemented!() }
    #[verifier::external_body]
    fn get_week_count(&self, start: usize) -> (r: usize) requires start < 7, ensures r == lwc(self.ord(), start as int) { unimplemented!() }
    #[verifier::external_body]
    fn get_year(&self) -> (r: isize) ensures r == self.yr() { unimplemented!() }
    #[verifier::external_body]
    fn get_month_with_leap(&self) -> (r: isize) ensures r == self.mwl(), lord_of(self.yr(), self.mwl()) == self.ord() { unimplemented!() }
    // the month NUMBER without the leap flag: identifies this month only when it is not a leap month (declared so that code
    // using it where the signed number is needed fails a precondition instead of leaving the unit undecided)
    #[verifier::external_body]
    fn get_month(&self) -> (r: usize) ensures r == (if self.mwl() < 0 { -self.mwl() } else { self.mwl() }) { unimplemented!() }
}
impl Clone for LunarDay { #[verifier::external_body] fn clone(&self) -> (r: Self) ensures r.jdn() == self.jdn() { unimplemented!() } }
impl LunarDay {
    pub uninterp spec fn jdn(&self) -> int;
    // C02: a lunar day stepped by n days is the day n day numbers later
    #[verifier::external_body]
    fn next(&self, n: isize) -> (r: Self) ensures r.jdn() == self.jdn() + n { unimplemented!() }
    #[verifier::external_body]
    fn from_ymd(year: isize, month: isize, day: usize) -> (r: Self)
        requires day == 1, 0 <= lord_of(year as int, month as int) <= LO_MAX(),
        ensures r.jdn() == FL(lord_of(year as int, month as int)),
    { unimplemented!() }
    #[verifier::external_body]
    fn get_week(&self) -> (r: Week) ensures r.idx() == (self.jdn() + 1) % 7 { unimplemented!() }
}

//@STRUCT file=src/tyme/lunar.rs struct=LunarWeek

impl LunarWeek {
    spec fn first(&self) -> int { lweek_first(self.month.ord(), self.index as int, self.start.idx()) }
    spec fn wf(&self) -> bool { 0 <= self.month.ord() <= LO_MAX() && 0 <= self.start.idx() < 7 && self.index < lwc(self.month.ord(), self.start.idx()) }

    #[verifier::external_body]
    fn from_ym(year: isize, month: isize, index: usize, start: usize) -> (r: Self)
        requires start < 7, 0 <= lord_of(year as int, month as int) <= LO_MAX(), index < lwc(lord_of(year as int, month as int), start as int),
        ensures r.month.ord() == lord_of(year as int, month as int), r.index == index, r.start.idx() == start,
    { unimplemented!() }
    // n == 0 returns a copy (derive(Clone) of the real struct)
    #[verifier::external_body]
    fn clone(&self) -> (r: Self)
        ensures r.month.ord() == self.month.ord(), r.index == self.index, r.start.idx() == self.start.idx(),
    { unimplemented!() }

    // K (c14_k_lunar_week_first_day): the first day of the week
    #[verifier::external_body]
    fn get_first_day(&self) -> (r: LunarDay) requires self.wf(), ensures r.jdn() == self.first() { unimplemented!() }
    //@EXTRACT file=src/tyme/lunar.rs impl="impl LunarWeek" fn=get_days loops=1
    //@sig
        requires self.wf(),
        ensures r@.len() == 7, forall|j: int| 0 <= j < 7 ==> (#[trigger] r@[j]).jdn() == self.first() + j,
    //@loop 0
        invariant 1 <= i <= 7, l@.len() == i, n.jdn() == self.first(),
                  forall|j: int| 0 <= j < l@.len() ==> (#[trigger] l@[j]).jdn() == self.first() + j,
    //@END

    //@EXTRACT file=src/tyme/lunar.rs impl="impl Tyme for LunarWeek" fn=next loops=2
    //@sig
        requires
            self.wf(), -100000 <= n <= 100000,
            8 <= self.month.ord() + n, self.month.ord() + n + 8 <= LO_MAX(),
            8 <= self.month.ord(), self.month.ord() + 8 <= LO_MAX(),
        ensures
            r.wf(),
            r.first() == self.first() + 7 * n,
    //@body_start
        proof { lemma_lborder(self.month.ord(), self.start.idx()); }
    //@loop 0
        invariant
            self.wf(), n > 0, -100000 <= n <= 100000, start_index == self.start.idx(),
            self.month.ord() + n + 8 <= LO_MAX(), 8 <= self.month.ord(),
            self.month.ord() <= m.ord(), m.ord() + d <= self.month.ord() + self.index + n,
            0 <= d <= 200000, week_count == lwc(m.ord(), start_index as int), self.index <= 5, 5 <= week_count <= 6,
            lweek_first(m.ord(), d as int, start_index as int) == self.first() + 7 * n,
        decreases d,
    //@loop_start 0
        proof { lemma_lborder(m.ord(), start_index as int); lemma_lborder(m.ord() + 1, start_index as int); }
    //@loop_end 0
        proof { m.axiom_id(); }
    //@loop 1
        invariant
            self.wf(), n < 0, -100000 <= n <= 100000, start_index == self.start.idx(),
            8 <= self.month.ord() + n, self.month.ord() + 8 <= LO_MAX(),
            m.ord() <= self.month.ord(), m.ord() - self.month.ord() >= (self.index + n) - d,
            -200000 <= d <= 6, self.index <= 5, d < lwc(m.ord(), start_index as int),
            lweek_first(m.ord(), d as int, start_index as int) == self.first() + 7 * n,
        decreases -d + 10,
    //@loop_start 1
        proof { lemma_lborder(m.ord() - 1, start_index as int); lemma_lborder(m.ord(), start_index as int); m.axiom_id(); }
    //@END
}

} // verus!
fn main() {}
