// C04 (V): the executable no-major-term rule checker (spec/leaprule.rs) is proved equal to its mathematical
// statement: `last_lunation` returns the lunation containing the closing winter solstice, `has_zq` decides whether a
// lunation contains a major term, `leap_position` returns the first lunation after the opening one without a major
// term when 13 lunations separate the solstice months, and -1 otherwise. The leaf run c04_leap_rule executes this
// verified checker on the library's own new-moon and term days and compares with the leap table / month offsets.
use vstd::prelude::*;
verus! {
//@SPECLIB
} // verus!
fn main() {}
