// C11 / C08 (V): SixtyCycleMonth::next and get_index_in_year extracted verbatim from src/tyme/sixtycycle.rs: with the position
// p = 12 * (pillar year) + (index in year, counted from the Yin month), next(n) yields the month at position p + n for EVERY n
// whose target year stays in -1..=9999 (the Kani harness c08_k_month_next covers |n| <= 300 only), and the month pillar moves by n.
// Callee contracts (external_body): SixtyCycle / EarthBranch index arithmetic (K: generated cycle harnesses c11_cycle_*),
// SixtyCycleYear::from_year accepts -1..=9999 (K).
use vstd::prelude::*;
verus! {
global size_of usize == 8;

// trusted contract of the standard library (Verus ships none for it): Euclidean division == mathematical floor division for a
// positive divisor. Kani checks it for the divisor used here (c11_k_div_euclid_12).
pub assume_specification [isize::div_euclid](a: isize, b: isize) -> (r: isize)
    requires b > 0,
    ensures r == (a as int) / (b as int);

#[verifier::external_body]
pub struct SixtyCycle { _p: u8 }
#[verifier::external_body]
pub struct EarthBranch { _p: u8 }
impl SixtyCycle {
    pub uninterp spec fn idx(&self) -> int;
    #[verifier::external_body]
    fn next(&self, n: isize) -> (r: Self) ensures r.idx() == (self.idx() + n) % 60 { unimplemented!() }
    #[verifier::external_body]
    fn get_earth_branch(&self) -> (r: EarthBranch) ensures r.idx() == self.idx() % 12 { unimplemented!() }
}
impl EarthBranch {
    pub uninterp spec fn idx(&self) -> int;
    #[verifier::external_body]
    fn next(&self, n: isize) -> (r: Self) ensures r.idx() == (self.idx() + n) % 12 { unimplemented!() }
    #[verifier::external_body]
    fn get_index(&self) -> (r: usize) ensures r == self.idx() { unimplemented!() }
}

//@STRUCT file=src/tyme/sixtycycle.rs struct=SixtyCycleYear derive="Clone, Copy"
//@STRUCT file=src/tyme/sixtycycle.rs struct=SixtyCycleMonth

impl SixtyCycleYear {
    #[verifier::external_body]
    fn from_year(year: isize) -> (r: Self) requires -1 <= year <= 9999, ensures r.year == year { unimplemented!() }
    //@EXTRACT file=src/tyme/sixtycycle.rs impl="impl SixtyCycleYear" fn=get_year
    //@sig
        ensures r == self.year,
    //@END
}

impl SixtyCycleMonth {
    spec fn wf(&self) -> bool { 0 <= self.month.idx() < 60 && -1 <= self.year.year <= 9999 }
    spec fn index(&self) -> int { (self.month.idx() % 12 - 2) % 12 }
    spec fn pos(&self) -> int { 12 * self.year.year + self.index() }

    //@EXTRACT file=src/tyme/sixtycycle.rs impl="impl SixtyCycleMonth" fn=get_index_in_year
    //@sig
        requires self.wf(),
        ensures r == self.index(), r < 12,
    //@END

    //@EXTRACT file=src/tyme/sixtycycle.rs impl="impl Tyme for SixtyCycleMonth" fn=next
    //@sig
        requires self.wf(), -0x4000_0000_0000 < n < 0x4000_0000_0000, -12 <= self.pos() + n <= 9999 * 12 + 11,
        ensures r.wf(), r.pos() == self.pos() + n, r.month.idx() == (self.month.idx() + n) % 60,
    //@END
}

} // verus!
fn main() {}
