// C16 (V): DefaultChildLimitProvider::get_info (seconds -> counts) and AbstractChildLimitProvider::next
// (calendar addition with carries and the day-overflow loop) extracted verbatim from eightchar/provider.rs.
//   get_info: 259200*Y + 21600*M + 720*D + 30*H + Mi/2 == seconds, M < 12, D < 30, H < 24, Mi < 60 even
//   next:     seconds/minutes/hours carry upward, days overflow month by month; the end instant is built from a
//             day that exists in the carried month (from_ymd_hms is never refused); counts are returned unchanged
// Callee contracts (external_body): SolarMonth::from_ym/next/get_day_count/get_year/get_month (K, C11/C01),
// SolarTime getters and subtract (C12), term instant (L-TI).
use vstd::prelude::*;
verus! {
global size_of usize == 8;

// std: isize::abs (trusted std specification; no overflow for values above isize::MIN)
pub assume_specification [isize::abs] (x: isize) -> (r: isize)
    requires x > isize::MIN,
    ensures r == (if x < 0 { -(x as int) } else { x as int });

pub uninterp spec fn ML(ord: int) -> int;             // number of days of civil month number ord = 12*year + month - 1
#[verifier::external_body]
pub proof fn axiom_ml(ord: int) ensures 21 <= ML(ord) <= 31 { unimplemented!() }   // K: c01_k7_lengths
pub spec const ORD_MAX: int = 12int * 9999 + 11;
pub spec const OCT_1582: int = 12int * 1582 + 9;   // the month with the ten dropped days: day numbers are not 1..=ML there

/// days overflow month by month
pub open spec fn carry(ord: int, d: int) -> (int, int)
    decreases d,
{
    if d > ML(ord) && ML(ord) >= 21 { carry(ord + 1, d - ML(ord)) } else { (ord, d) }
}

pub proof fn lemma_carry_bounds(o: int, d: int)
    requires d >= 0,
    ensures o <= carry(o, d).0 <= o + d,
    decreases d,
{
    if d > ML(o) && ML(o) >= 21 { lemma_carry_bounds(o + 1, d - ML(o)); }
}
pub proof fn lemma_carry_bounds_all()
    ensures forall|o: int, d: int| d >= 0 ==> o <= (#[trigger] carry(o, d)).0 <= o + d,
{
    assert forall|o: int, d: int| d >= 0 implies o <= (#[trigger] carry(o, d)).0 <= o + d by { lemma_carry_bounds(o, d); }
}

#[verifier::external_body]
pub struct SolarMonth { _p: u8 }
impl Clone for SolarMonth { #[verifier::external_body] fn clone(&self) -> Self { unimplemented!() } }
impl Copy for SolarMonth {}
#[verifier::external_body]
pub struct SolarTime { _p: u8 }
impl Clone for SolarTime { #[verifier::external_body] fn clone(&self) -> Self { unimplemented!() } }
impl Copy for SolarTime {}
#[verifier::external_body]
pub struct SolarTerm { _p: u8 }
#[verifier::external_body]
pub struct JulianDay { _p: u8 }
#[verifier::external_body]
pub struct SolarDay { _p: u8 }
#[verifier::external_body]
pub struct LunarHour { _p: u8 }
impl SolarDay {
    pub uninterp spec fn jdn(&self) -> int;
    // K (c01_k4_subtract): difference of day numbers
    #[verifier::external_body]
    fn subtract(&self, target: SolarDay) -> (r: isize) ensures r == self.jdn() - target.jdn() { unimplemented!() }
}
impl LunarHour {
    pub uninterp spec fn h(&self) -> int;
    // K (c09_k_hour_index): index of the double-hour in the day
    #[verifier::external_body]
    fn get_index_in_day(&self) -> (r: usize) ensures r == (self.h() + 1) / 2 { unimplemented!() }
}

impl SolarMonth {
    pub uninterp spec fn ord(&self) -> int;
    #[verifier::external_body]
    fn from_ym(year: isize, month: usize) -> (r: Self)
        requires 1 <= year <= 9999, 1 <= month <= 12,
        ensures r.ord() == 12 * year + month - 1,
    { unimplemented!() }
    #[verifier::external_body]
    fn next(&self, n: isize) -> (r: Self)
        requires 12 <= self.ord() + n <= ORD_MAX,
        ensures r.ord() == self.ord() + n,
    { unimplemented!() }
    #[verifier::external_body]
    fn get_day_count(&self) -> (r: usize) ensures r == ML(self.ord()), 21 <= r <= 31 { unimplemented!() }
    #[verifier::external_body]
    fn get_year(&self) -> (r: isize) ensures r == self.ord() / 12 { unimplemented!() }
    #[verifier::external_body]
    fn get_month(&self) -> (r: usize) ensures r == self.ord() % 12 + 1 { unimplemented!() }
}

impl SolarTime {
    pub uninterp spec fn ord(&self) -> int;
    pub uninterp spec fn d(&self) -> int;
    pub uninterp spec fn h(&self) -> int;
    pub uninterp spec fn mi(&self) -> int;
    pub uninterp spec fn s(&self) -> int;
    pub uninterp spec fn abs(&self) -> int;
    pub open spec fn wf(&self) -> bool { 12 <= self.ord() <= ORD_MAX && 1 <= self.d() <= 31 && 0 <= self.h() < 24 && 0 <= self.mi() < 60 && 0 <= self.s() < 60 }
    #[verifier::external_body]
    fn get_year(&self) -> (r: isize) ensures r == self.ord() / 12 { unimplemented!() }
    #[verifier::external_body]
    fn get_month(&self) -> (r: usize) ensures r == self.ord() % 12 + 1 { unimplemented!() }
    #[verifier::external_body]
    fn get_day(&self) -> (r: usize) ensures r == self.d() { unimplemented!() }
    #[verifier::external_body]
    fn get_hour(&self) -> (r: usize) ensures r == self.h() { unimplemented!() }
    #[verifier::external_body]
    fn get_minute(&self) -> (r: usize) ensures r == self.mi() { unimplemented!() }
    #[verifier::external_body]
    fn get_second(&self) -> (r: usize) ensures r == self.s() { unimplemented!() }
    // the unwrap inside from_ymd_hms: accepted <=> the day exists in the month and the clock reading is valid
    #[verifier::external_body]
    fn from_ymd_hms(year: isize, month: usize, day: usize, hour: usize, minute: usize, second: usize) -> (r: Self)
        requires 1 <= year <= 9999, 1 <= month <= 12, 1 <= day <= ML(12 * year + month - 1), 12 * year + month - 1 != OCT_1582, hour < 24, minute < 60, second < 60,
        ensures r.ord() == 12 * year + month - 1, r.d() == day, r.h() == hour, r.mi() == minute, r.s() == second,
    { unimplemented!() }
    pub uninterp spec fn jdn(&self) -> int;
    /// the absolute second is that of the date and clock reading (C01 + C12)
    pub open spec fn wf_abs(&self) -> bool { 0 <= self.h() < 24 && 0 <= self.mi() < 60 && 0 <= self.s() < 60 && self.abs() == 86400 * self.jdn() + 3600 * self.h() + 60 * self.mi() + self.s() }
    #[verifier::external_body]
    fn is_after(&self, target: SolarTime) -> (r: bool) ensures r == (self.abs() > target.abs()) { unimplemented!() }   // K: c12_k_time_order
    #[verifier::external_body]
    fn get_solar_day(&self) -> (r: SolarDay) ensures r.jdn() == self.jdn() { unimplemented!() }
    #[verifier::external_body]
    fn get_lunar_hour(&self) -> (r: LunarHour) ensures r.h() == self.h() { unimplemented!() }
    // V (c12_time_next): distance in seconds
    #[verifier::external_body]
    fn subtract(&self, target: SolarTime) -> (r: isize)
        ensures r == self.abs() - target.abs(), -400000000000 <= r <= 400000000000,
    { unimplemented!() }
}
impl SolarTerm {
    pub uninterp spec fn ti(&self) -> int;            // absolute second of the term instant (L-TI)
    pub uninterp spec fn tjdn(&self) -> int;          // its day number and clock hour
    pub uninterp spec fn th(&self) -> int;
    #[verifier::external_body]
    fn get_julian_day(&self) -> (r: JulianDay) ensures r.ti() == self.ti(), r.tjdn() == self.tjdn(), r.th() == self.th() { unimplemented!() }
}
impl JulianDay {
    pub uninterp spec fn ti(&self) -> int;
    pub uninterp spec fn tjdn(&self) -> int;
    pub uninterp spec fn th(&self) -> int;
    #[verifier::external_body]
    fn get_solar_time(&self) -> (r: SolarTime) ensures r.abs() == self.ti(), r.wf_abs(), r.jdn() == self.tjdn(), r.h() == self.th() { unimplemented!() }
}
pub open spec fn abs_diff(a: int, b: int) -> int { if a - b < 0 { b - a } else { a - b } }

//@STRUCT file=src/tyme/eightchar/mod.rs struct=ChildLimitInfo
//@STRUCT file=src/tyme/eightchar/provider.rs struct=AbstractChildLimitProvider derive="Clone, Copy"
//@STRUCT file=src/tyme/eightchar/provider.rs struct=DefaultChildLimitProvider derive="Clone, Copy"
//@STRUCT file=src/tyme/eightchar/provider.rs struct=China95ChildLimitProvider derive="Clone, Copy"
//@STRUCT file=src/tyme/eightchar/provider.rs struct=LunarSect2ChildLimitProvider derive="Clone, Copy"
//@STRUCT file=src/tyme/eightchar/provider.rs struct=LunarSect1ChildLimitProvider derive="Clone, Copy"

impl AbstractChildLimitProvider {
    //@EXTRACT file=src/tyme/eightchar/provider.rs impl="impl AbstractChildLimitProvider" fn=next loops=1
    //@sig
        requires
            birth_time.wf(), add_year <= 4000, add_month <= 12, add_day <= 31, add_hour <= 24, add_minute <= 60, add_second <= 60,
            birth_time.ord() + 12 * add_year + add_month + 8 <= ORD_MAX,
            // known finding (excluded): an end instant inside October 1582 - the loop compares day NUMBERS with the
            // month's day COUNT (21), so days 5..14 are refused and 22..31 are carried into November
            carry(birth_time.ord() + 12 * add_year + add_month,
                birth_time.d() + add_day + (birth_time.h() + add_hour + (birth_time.mi() + add_minute + (birth_time.s() + add_second) / 60) / 60) / 24).0 != OCT_1582,
        ensures
            r.year_count == add_year, r.month_count == add_month, r.day_count == add_day, r.hour_count == add_hour, r.minute_count == add_minute,
            r.start_time == birth_time,
            ({
                let st = birth_time.s() + add_second; let mt = birth_time.mi() + add_minute + st / 60;
                let ht = birth_time.h() + add_hour + mt / 60; let dt = birth_time.d() + add_day + ht / 24;
                let c = carry(birth_time.ord() + 12 * add_year + add_month, dt);
                r.end_time.s() == st % 60 && r.end_time.mi() == mt % 60 && r.end_time.h() == ht % 24
                && r.end_time.ord() == c.0 && r.end_time.d() == c.1 && 1 <= r.end_time.d() <= ML(r.end_time.ord())
            }),
    //@loop 0
        invariant
            12 <= sm.ord() <= ORD_MAX, dc == ML(sm.ord()), 21 <= dc <= 31, 1 <= d <= 70,
            sm.ord() + (d / 21) <= birth_time.ord() + 12 * add_year + add_month + 4,
            birth_time.ord() + 12 * add_year + add_month + 8 <= ORD_MAX,
            carry(sm.ord(), d as int) == carry(birth_time.ord() + 12 * add_year + add_month,
                birth_time.d() + add_day + (birth_time.h() + add_hour + (birth_time.mi() + add_minute + (birth_time.s() + add_second) / 60) / 60) / 24),
        decreases d,
    //@END
}

impl DefaultChildLimitProvider {
    //@EXTRACT file=src/tyme/eightchar/provider.rs impl="impl ChildLimitProvider for DefaultChildLimitProvider" fn=get_info
    //@body_start
        proof { lemma_carry_bounds_all(); }
    //@sig
        requires birth_time.wf(), birth_time.ord() + 12 * 4000 + 20 <= ORD_MAX,
                 birth_time.ord() + 200 < OCT_1582 || birth_time.ord() > OCT_1582,   // the limit cannot end in October 1582 (known finding, excluded)
                 abs_diff(term.ti(), birth_time.abs()) <= 86400 * 32,   // L-TI: the governing Jie is at most one Jie-month (< 32 d) away
        ensures
            259200 * r.year_count + 21600 * r.month_count + 720 * r.day_count + 30 * r.hour_count + r.minute_count / 2 == abs_diff(term.ti(), birth_time.abs()),
            r.month_count < 12, r.day_count < 30, r.hour_count < 24, r.minute_count < 60, r.minute_count % 2 == 0,
            r.year_count <= 10,                                          // hence the limit ends at most about eleven years after birth
            r.start_time == birth_time,
    //@END
}


// the two minute-based strategies: 3 days = 1 year, 1 day = 4 months, 2 hours = 10 days; sect 2 also 1 minute = 2 hours... (12 min = 1 day)
impl China95ChildLimitProvider {
    //@EXTRACT file=src/tyme/eightchar/provider.rs impl="impl ChildLimitProvider for China95ChildLimitProvider" fn=get_info
    //@body_start
        proof { lemma_carry_bounds_all(); }
    //@sig
        requires birth_time.wf(), birth_time.ord() + 12 * 4000 + 20 <= ORD_MAX,
                 birth_time.ord() + 200 < OCT_1582 || birth_time.ord() > OCT_1582,
                 abs_diff(term.ti(), birth_time.abs()) <= 86400 * 32,
        ensures
            4320 * r.year_count + 360 * r.month_count + 12 * r.day_count <= abs_diff(term.ti(), birth_time.abs()) / 60,
            abs_diff(term.ti(), birth_time.abs()) / 60 < 4320 * r.year_count + 360 * r.month_count + 12 * r.day_count + 12,
            r.month_count < 12, r.day_count < 30, r.hour_count == 0, r.minute_count == 0, r.year_count <= 10,
            r.start_time == birth_time,
    //@END
}
impl LunarSect2ChildLimitProvider {
    //@EXTRACT file=src/tyme/eightchar/provider.rs impl="impl ChildLimitProvider for LunarSect2ChildLimitProvider" fn=get_info
    //@body_start
        proof { lemma_carry_bounds_all(); }
    //@sig
        requires birth_time.wf(), birth_time.ord() + 12 * 4000 + 20 <= ORD_MAX,
                 birth_time.ord() + 200 < OCT_1582 || birth_time.ord() > OCT_1582,
                 abs_diff(term.ti(), birth_time.abs()) <= 86400 * 32,
        ensures
            4320 * r.year_count + 360 * r.month_count + 12 * r.day_count + r.hour_count / 2 == abs_diff(term.ti(), birth_time.abs()) / 60,
            r.month_count < 12, r.day_count < 30, r.hour_count < 24, r.hour_count % 2 == 0, r.minute_count == 0, r.year_count <= 10,
            r.start_time == birth_time,
    //@END
}


// the double-hour strategy: whole days and whole double-hours between birth and the Jie; 1 day = 4 months, 1 double-hour = 10 days
pub open spec fn zhi_h(h: int) -> int { if h == 23 { 11 } else { (h + 1) / 2 } }
pub open spec fn zhi(t: SolarTime) -> int { zhi_h(t.h()) }
impl LunarSect1ChildLimitProvider {
    //@EXTRACT file=src/tyme/eightchar/provider.rs impl="impl ChildLimitProvider for LunarSect1ChildLimitProvider" fn=get_info
    //@body_start
        proof { lemma_carry_bounds_all(); }
    //@sig
        requires birth_time.wf(), birth_time.wf_abs(), birth_time.ord() + 12 * 4000 + 20 <= ORD_MAX,
                 birth_time.ord() + 200 < OCT_1582 || birth_time.ord() > OCT_1582,
                 abs_diff(term.ti(), birth_time.abs()) <= 86400 * 32,
        ensures
            // double-hours between the two instants, counted by (day, double-hour index with 23:00 counted as the last one)
            abs_units(birth_time.jdn(), zhi(birth_time), term.tjdn(), zhi_h(term.th())) == 360 * r.year_count + 30 * r.month_count + r.day_count,
            r.month_count < 12, r.day_count < 30, r.day_count % 10 == 0, r.hour_count == 0, r.minute_count == 0, r.year_count <= 10,
            r.start_time == birth_time,
    //@END
}
/// 10 days per double-hour: |12 * (jt - jb) + (zt - zb)| * 10
pub open spec fn abs_units(jb: int, zb: int, jt: int, zt: int) -> int { let t = 12 * (jt - jb) + (zt - zb); 10 * (if t < 0 { -t } else { t }) }

} // verus!
fn main() {}
