"""Obligation registry: for every claimed property, the K (Kani), V (Verus) and L (leaf) obligations.

K ids are harness names in kani/k_*.rs (sliced ones: the //@SLICES prefix).
V ids are templates under verus/.  L ids are checks of the leaf runner.
"""

REG = {}

REG['C01'] = {
    'level': 'proof',
    'design_ref': '5/C01',
    'technique': 'Kani function contracts + full-domain symbolic harnesses on the real jd.rs/solar.rs functions (f64 bit-precise), Verus lemmas over the spec calendar',
    'level_text': 'Every clause is a K or V obligation over the whole input domain: date->day-number against a first-principles calendar spec (all y,m,d), acceptance == existence, the inverse conversion for every day number (quick: stated subset of 100 year-slices, thorough: complete partition + the contract form), subtract/next/order/lengths; Verus lemmas give +1 per civil day incl. the 1582 cut-over, bijection onto 3,652,061 day numbers, order <=> day-number order. No leaf contracts.',
    'level_note': 'trusted: Kani/CBMC (incl. IEEE-754 model), Verus/Z3, rustc; alloc::fmt::format stubbed (message text only); stub_verified callers see only the separately proved conversion contracts; quick tier proves the inverse conversion on a boundary + seed-rotated subset of slices and says which (full partition in thorough)',
    'functions': [
        'JulianDay::from_ymd_hms', 'JulianDay::get_solar_time', 'JulianDay::get_solar_day', 'JulianDay::next',
        'SolarDay::new', 'SolarDay::from_ymd', 'SolarDay::get_julian_day', 'SolarDay::subtract', 'SolarDay::next',
        'SolarDay::is_before', 'SolarDay::is_after', 'SolarDay::get_index_in_year',
        'SolarMonth::new', 'SolarMonth::get_day_count', 'SolarYear::new', 'SolarYear::get_day_count', 'SolarYear::is_leap',
    ],
    'K': [
        dict(id='c01_k1_ymd2jd', paired_leaf=dict(check='c01_calendar_years', range=(1, 9999), chunks=32), sliced=True, quick='all', fn='JulianDay::from_ymd_hms',
             clause='contract: from_ymd_hms(y,m,d,0,0,0).day == jdn(y,m,d) - 0.5 for all 0<=y<=10000, 1<=m<=12, 1<=d<=31'),
        dict(id='c01_k3q_jd2ymd', paired_leaf=dict(check='c01_calendar_years', range=(1, 9999), chunks=32), sliced=True, quick=dict(boundary=[0, 'v:1582', 'v:1900', -1], sample=12), fn='JulianDay::get_solar_time',
             clause='for every valid date d: get_solar_time(jdn(d) - 0.5) == d at 00:00:00 (with V2 surjectivity: the inverse conversion for every day number in range)'),
        dict(id='c01_k3_jd2ymd', paired_leaf=dict(check='c01_calendar_years', range=(1, 9999), chunks=32), sliced=True, thorough_only=True, fn='JulianDay::get_solar_time',
             clause='contract: for every integer day number n of 0001-01-01..9999-12-31, get_solar_time(n-0.5) is a valid date at 00:00:00 with jdn == n'),
        dict(id='c01_k2_day_accept', paired_leaf=dict(check='c01_calendar_years', range=(1, 9999), chunks=32), fn='SolarDay::new', clause='SolarDay::new(y,m,d).is_ok() == valid_date(y,m,d) for all y in 1..9999, m in 1..12, every usize d'),
        dict(id='c01_k2_month_year_refuse', fn='SolarMonth::new / SolarYear::new', clause='months outside 1..12 and years outside 1..9999 are refused (Err)'),
        dict(id='c01_k2_bad_month_year_panics', expect='panic_all', fn='SolarDay::new', clause='SolarDay::new refuses (panics) for every (y,m) outside 1..9999 x 1..12'),
        dict(id='c01_k4_subtract', paired_leaf=dict(check='c01_calendar_years', range=(1, 9999), chunks=32), fn='SolarDay::subtract', clause='a.subtract(b) == jdn(a) - jdn(b) for all pairs of valid dates (stub_verified from_ymd_hms)'),
        dict(id='c01_k5_next', paired_leaf=dict(check='c01_calendar_years', range=(1, 9999), chunks=32), thorough_only=True, fn='SolarDay::next', clause='jdn(a.next(n)) == jdn(a) + n and the result is valid, for all a, n with the result in range (both conversion contracts)'),
        dict(id='c01_k3_roundtrip_by_contract', paired_leaf=dict(check='c01_calendar_years', range=(1, 9999), chunks=32), thorough_only=True, fn='SolarDay::get_julian_day / JulianDay::get_solar_day', clause='date -> day count -> date keeps the day number and validity'),
        dict(id='c01_k6_order', fn='SolarDay::is_before / is_after / eq', clause='strict lexicographic order on (y,m,d)'),
        dict(id='c01_k7_lengths', paired_leaf=dict(check='c01_calendar_years', range=(1, 9999), chunks=32), fn='SolarMonth::get_day_count, SolarYear::get_day_count / is_leap', clause='== month_len / year_len / is_leap_civil of the calendar spec'),
        dict(id='c01_k7_day_of_year', paired_leaf=dict(check='c01_calendar_years', range=(1, 9999), chunks=32), thorough_only=True, fn='SolarDay::get_index_in_year', clause='== jdn(date) - jdn(y,1,1)'),
    ],
    'V': [
        dict(id='c01_v_calendar', template='verus/c01_calendar.rs',
             clause='spec library exec == math; successor lemma (+1 per civil day incl. 1582 cut-over); jdn strictly monotone in lexicographic order => injective; year/month lengths == jdn differences; count of valid dates == 3652061'),
    ],
    'L': [],
    'trusted': ['kani::stub_verified replaces JulianDay::from_ymd_hms / get_solar_time by their (separately proved) contracts in the caller harnesses'],
}
