"""Obligation registry: for every claimed property, the K (Kani), V (Verus) and L (leaf) obligations.

K ids are harness names in kani/k_*.rs (sliced ones: the //@SLICES prefix).
V ids are templates under verus/.  L ids are checks of the leaf runner.
"""

REG = {}

REG['C01'] = {
    'level': 'proof',
    'design_ref': '5/C01',
    'technique': 'Kani function contracts + full-domain symbolic harnesses on the real jd.rs/solar.rs functions (f64 bit-precise), Verus lemmas over the spec calendar',
    'level_text': 'Every clause is a K or V obligation over the whole input domain: date->day-number against a first-principles calendar spec (all y,m,d), acceptance == existence, the inverse conversion for every day number (quick: stated subset of 100 year-slices, thorough: complete partition + the contract form), subtract/next/order/lengths; Verus lemmas give +1 per civil day incl. the 1582 cut-over, bijection onto 3,652,061 day numbers, order <=> day-number order. No leaf contracts are assumed; one exhaustive execution run is added as a cross-check and as the quick-tier stand-in for the obligations that only run in the thorough tier.',
    'level_note': 'trusted: Kani/CBMC (incl. IEEE-754 model), Verus/Z3, rustc; alloc::fmt::format stubbed (message text only); stub_verified callers see only the separately proved conversion contracts; quick tier proves the inverse conversion on a boundary + seed-rotated subset of slices and says which (full partition in thorough)',
    'functions': [
        'JulianDay::from_ymd_hms', 'JulianDay::get_solar_time', 'JulianDay::get_solar_day', 'JulianDay::next',
        'SolarDay::new', 'SolarDay::from_ymd', 'SolarDay::get_julian_day', 'SolarDay::subtract', 'SolarDay::next',
        'SolarDay::is_before', 'SolarDay::is_after', 'SolarDay::get_index_in_year',
        'SolarMonth::new', 'SolarMonth::get_day_count', 'SolarYear::new', 'SolarYear::get_day_count', 'SolarYear::is_leap',
    ],
    'K': [
        dict(id='c01_k1_ymd2jd', paired_leaf=dict(check='c01_calendar_years', range=(1, 9999), chunks=32), sliced=True, quick='all', fn='JulianDay::from_ymd_hms',
             clause='contract: from_ymd_hms(y,m,d,0,0,0).day == jdn(y,m,d) - 0.5 for all 0<=y<=10000, 1<=m<=12, 1<=d<=31'),
        dict(id='c01_k3q_jd2ymd', paired_leaf=dict(check='c01_calendar_years', range=(1, 9999), chunks=32), sliced=True, quick=dict(boundary=[0, 'v:1582', 'v:1900', -1], sample=12), fn='JulianDay::get_solar_time',
             clause='for every valid date d: get_solar_time(jdn(d) - 0.5) == d at 00:00:00 (with V2 surjectivity: the inverse conversion for every day number in range)'),
        dict(id='c01_k3_jd2ymd', paired_leaf=dict(check='c01_calendar_years', range=(1, 9999), chunks=32), sliced=True, thorough_only=True, fn='JulianDay::get_solar_time',
             clause='contract: for every integer day number n of 0001-01-01..9999-12-31, get_solar_time(n-0.5) is a valid date at 00:00:00 with jdn == n'),
        dict(id='c01_k2_day_accept', paired_leaf=dict(check='c01_calendar_years', range=(1, 9999), chunks=32), fn='SolarDay::new', clause='SolarDay::new(y,m,d).is_ok() == valid_date(y,m,d) for all y in 1..9999, m in 1..12, every usize d'),
        dict(id='c01_k2_month_year_refuse', fn='SolarMonth::new / SolarYear::new', clause='months outside 1..12 and years outside 1..9999 are refused (Err)'),
        dict(id='c01_k2_bad_month_year_panics', expect='panic_all', fn='SolarDay::new', clause='SolarDay::new refuses (panics) for every (y,m) outside 1..9999 x 1..12'),
        dict(id='c01_k4_subtract', paired_leaf=dict(check='c01_calendar_years', range=(1, 9999), chunks=32), fn='SolarDay::subtract', clause='a.subtract(b) == jdn(a) - jdn(b) for all pairs of valid dates (stub_verified from_ymd_hms)'),
        dict(id='c01_k5_next', paired_leaf=dict(check='c01_calendar_years', range=(1, 9999), chunks=32), thorough_only=True, fn='SolarDay::next', clause='jdn(a.next(n)) == jdn(a) + n and the result is valid, for all a, n with the result in range (both conversion contracts)'),
        dict(id='c01_k3_roundtrip_by_contract', paired_leaf=dict(check='c01_calendar_years', range=(1, 9999), chunks=32), thorough_only=True, fn='SolarDay::get_julian_day / JulianDay::get_solar_day', clause='date -> day count -> date keeps the day number and validity'),
        dict(id='c01_k6_order', fn='SolarDay::is_before / is_after / eq', clause='strict lexicographic order on (y,m,d)'),
        dict(id='c01_k7_lengths', paired_leaf=dict(check='c01_calendar_years', range=(1, 9999), chunks=32), fn='SolarMonth::get_day_count, SolarYear::get_day_count / is_leap', clause='== month_len / year_len / is_leap_civil of the calendar spec'),
        dict(id='c01_k7_day_of_year', paired_leaf=dict(check='c01_calendar_years', range=(1, 9999), chunks=32), thorough_only=True, fn='SolarDay::get_index_in_year', clause='== jdn(date) - jdn(y,1,1)'),
    ],
    'V': [
        dict(id='c01_v_calendar', template='verus/c01_calendar.rs',
             clause='spec library exec == math; successor lemma (+1 per civil day incl. 1582 cut-over); jdn strictly monotone in lexicographic order => injective; year/month lengths == jdn differences; count of valid dates == 3652061'),
    ],
    'L': [
        dict(id='c01_calendar_years', check='c01_calendar_years', range=(1, 9999), chunks=64, exhaustive=True, domain='every candidate (y 1..9999, m 0..13, d 0..32) and every valid date',
             clause='bounded cross-check of the whole property by execution (acceptance, day count, maps back, day of year, next/subtract/order with the neighbour, lengths, one far step per month); NOT counted as discharged - it is the quick-tier stand-in for the obligations that run in the thorough tier only (c01_k5_next, c01_k7_day_of_year, contract form of get_solar_time)'),
    ],
    'trusted': ['kani::stub_verified replaces JulianDay::from_ymd_hms / get_solar_time by their (separately proved) contracts in the caller harnesses'],
}


REG['C03'] = {
    'level': 'proof',
    'design_ref': '5/C03',
    'technique': 'Verus on LunarMonth::next / LunarYear::get_months extracted verbatim (uninterpreted leap table) + Kani on the acceptance and index rule of LunarMonth::new (arbitrary leap configuration) + leaf contract of LunarMonth::new (astronomy) executed over all lunations',
    'level_text': 'Deductive part (proof, all inputs, any leap table): month stepping moves the absolute month ordinal by exactly n for every n and every assignment of leap months, the decoded month/leap flag is the one at that position (leap month directly after its twin), from_ym is never refused, next(n).next(-n) is the identity, a year lists exactly its 12/13 months in order. Leaf part (bounded, exhaustive execution, NOT proof): LunarMonth::new over all 123,684 lunations of years 0..9999 - 29/30 days, abutting months incl. year ends, 353-355/383-385 days, month/day counts == new-year distance.',
    'level_note': 'assumed (class L, checked by exhaustive execution each run): contract of LunarMonth::new / LunarYear::get_leap_month (astronomy + packed table); LunarMonth::from_ym == new (cache wrapper, see C10); Verus/Z3 trusted; extraction drops pub/docs and maps format! to an opaque message',
    'functions': ['LunarMonth::next', 'LunarMonth::get_month_with_leap', 'LunarMonth::get_year', 'LunarYear::new', 'LunarYear::from_year', 'LunarYear::next', 'LunarYear::get_year', 'LunarYear::get_month_count', 'LunarYear::get_months', 'LunarMonth::new (leaf)', 'LunarYear::get_leap_month (leaf)'],
    'K': [
        dict(id='c03_k_month_new_index', fn='LunarMonth::new', clause='accepted <=> month in 1..12 or minus the leap month of the year; index in year == month - 1 (+1 for the leap month and every month after it); fields stored as given - for EVERY leap configuration (leap table, solstice and new-moon instants are arbitrary answers of stubs)'),
    ],
    'V': [
        dict(id='c03_month_step', template='verus/c03_month_step.rs', twin_quick=True,
             twin=[('r.ord() == self.ord() + n,', 'r.ord() == self.ord() + n + 1,')],
             clause='LunarMonth::next moves the month ordinal by exactly n (any leap table); get_months lists ordinals mb(y)..mb(y)+msize(y)-1; get_days lists days 1..count in order; from_ym / from_ymd never refused',
             paired_leaf=[dict(id='c03_step_search', check='c03_month_step', range=(0, 9999), chunks=32)]),
    ],
    'L': [
        dict(id='L-NEW', check='l_new', range=(0, 9999), chunks=32, exhaustive=True, domain='every lunation of lunar years 0..9999 + refused month numbers',
             clause='LunarMonth::new: Ok <=> valid month; index sequential; 29/30 days; first(next) == first + count incl. year ends; year 353-355/383-385 days'),
        dict(id='c03_month_step', check='c03_month_step', range=(0, 9999), chunks=32, exhaustive=False, domain='every month of years 0..9999 x steps {-40..40, +-100, +-1237}',
             clause='next(n) lands on the month n places later in the month list; next(n).next(-n) == self; year listing == stepping'),
    ],
}

REG['C06'] = {
    'level': 'proof',
    'design_ref': '5/C06',
    'technique': 'Verus on SolarDay::get_term_day / SolarTime::get_term extracted verbatim (uninterpreted monotone term table) + Kani on the term index/year carry + leaf contracts L-TD/L-TI executed over all terms',
    'level_text': 'Deductive part: both searches return the unique term k with T(k) <= x < T(k+1) and day index x - TD(k), for every date/instant and ANY strictly increasing term table (Verus, real loops incl. the forward walk); SolarTerm::from_index/next year-index carry for every (year, index) with astronomy stubbed out (Kani). Leaf part (bounded, exhaustive execution): the 239,976 term days/instants of years 1..9999 are strictly increasing, 14-16 days / 14.6-15.8 d apart, day == civil day of the instant; plus the composite day->term over every civil date and instant->term around every term instant.',
    'level_note': 'assumed (class L): term day / instant functions (ShouXing series) satisfy L-TD/L-TI - checked by exhaustive execution, not proved; SolarDay::is_before/subtract contracts are proved in C01; SolarTime::is_before in C12; Verus extraction as in DESIGN 2.4',
    'functions': ['SolarDay::get_term_day', 'SolarTime::get_term', 'SolarTerm::from_index', 'SolarTerm::next', 'SolarTerm::is_jie/is_qi', 'SolarTerm::get_julian_day (leaf)', 'ShouXingUtil::calc_qi / qi_accurate2 (leaf)'],
    'K': [
        dict(id='c06_k_from_index', fn='SolarTerm::from_index', clause='year == floor((24*year+index)/24), index == (24*year+index) mod 24 for 0<=year<=10000, |index|<=100000, total >= 0; independent of the astronomy (calc_qi stubbed by a nondeterministic f64)'),
        dict(id='c06_k_next', fn='SolarTerm::next', clause='next(n) has absolute number k+n (calc_qi stubbed)'),
        dict(id='c06_k_parity', fn='SolarTerm::is_jie / is_qi', clause='is_jie <=> odd index, is_qi <=> even index, for all 24 indices'),
    ],
    'V': [
        dict(id='c06_term_search', template='verus/c06_term_search.rs', twin_quick=True,
             twin=[('r.term_k() < K_MAX ==> self.jdn() < TD(r.term_k() + 1),', 'r.term_k() < K_MAX ==> self.jdn() < TD(r.term_k()),')],
             clause='get_term_day / get_term return the unique interval [T(k), T(k+1)) containing the date / instant; day index == jdn - TD(k)',
             paired_leaf=[dict(id='c06_search', check='c06_day_term', range=(1, 9999), chunks=32), dict(id='c06_search_t', check='c06_time_term', range=(1, 9998), chunks=32)]),
    ],
    'L': [
        dict(id='L-TD/L-TI', check='l_td', range=(1, 9999), chunks=32, exhaustive=True, domain='all terms k=25..239999', clause='term days strictly increasing 14..16 apart, instants 14.6..15.8 d apart, day == civil day of instant (to the second)'),
        dict(id='c06_day_term', check='c06_day_term', range=(1, 9999), chunks=64, exhaustive=True, domain='every civil date 0001-01-06..9999-12-31', clause='get_term_day == latest term on or before, index == days since'),
        dict(id='c06_time_term', check='c06_time_term', range=(1, 9998), chunks=64, domain='every term x {instant, -1s, +1s, random, last second}', clause='get_term == latest term starting on or before the instant'),
        dict(id='c06_term_step', check='c06_term_step', range=(1, 9998), chunks=64, domain='every term x 14 step counts', clause='stepping == constructing (year carry both directions)'),
    ],
}

REG['C02'] = {
    'K': [dict(id='c02_k_lunar_order', fn='LunarDay::is_before / is_after / ==', clause='order and equality of two arbitrary well-formed lunar days == order of (year, position of the month in the year, day): a leap month sorts directly after its namesake, for every leap configuration'),
          dict(id='c02_k_lunar_day_next', fn='LunarDay::next', clause='next(0) is the day itself; otherwise the civil date of the day, stepped by exactly n, converted back (each callee exactly once, recorded)'),
          dict(id='c02_k_lunar_to_solar', fn='LunarDay::get_solar_day', clause='jdn(result) == first day number of the month + day - 1, valid date, memoised answer identical (caller sees only the contract of JulianDay::get_solar_time, noon form; that contract is proved in the thorough tier of C01)')],
    'level': 'proof',
    'design_ref': '5/C02',
    'technique': 'Verus on SolarDay::get_lunar_day extracted verbatim (uninterpreted tiling month table) + bijection/order lemmas + exhaustive execution of both conversions over every date',
    'level_text': 'Deductive part: get_lunar_day returns the month o and day d with FIRST(o)+d-1 == day number and 1<=d<=CNT(o), never refused, for ANY month table that tiles (real loops incl. forward walk); lemmas: tiling => disjoint month intervals => both round trips are identities, consecutive days map to day+1 or day 1 of the next month, (month position, day) order <=> chronological order. Leaf part (bounded, exhaustive execution): every civil date 0001..9999 and every lunar day of years 0..9999 through both conversions, acceptance of day 0 / count+1, before/after over all neighbouring-month pairs incl. leap twins.',
    'level_note': 'assumed (class L): L-NEW tiling (false at four reform-year boundaries = known findings, excluded from the Verus precondition `tiles`), LunarMonth::next contract proved in C03, SolarDay::subtract in C01; LunarDay::new/get_solar_day use RefCell/f64 and are covered by the exhaustive leaf run only',
    'functions': ['SolarDay::get_lunar_day', 'LunarDay::new (K: c13_k_lunar_day_accept)', 'LunarDay::get_solar_day', 'LunarDay::is_before / is_after / ==', 'LunarDay::next', 'LunarHour::is_before / is_after (leaf)', 'LunarMonth::new (index rule K: c03_k_month_new_index; astronomy leaf)'],
    'V': [
        dict(id='c02_lunar_conv', template='verus/c02_lunar_conv.rs', twin_quick=True,
             twin=[('FIRST(r.month_ord()) + r.day() - 1 == self.jdn(),', 'FIRST(r.month_ord()) + r.day() == self.jdn(),')],
             clause='get_lunar_day: FIRST(month)+day-1 == jdn, 1<=day<=CNT; from_ymd never refused; bijection / consecutive / order lemmas',
             paired_leaf=[dict(id='c02_search', check='c02_solar_side', range=(1, 9999), chunks=32)]),
    ],
    'L': [
        dict(id='c02_solar_side', check='c02_solar_side', range=(1, 9999), chunks=64, exhaustive=True, domain='every civil date 0001-01-01..9999-12-31', clause='civil -> lunar -> civil identity; consecutive days'),
        dict(id='c02_lunar_side', check='c02_lunar_side', range=(0, 9999), chunks=64, exhaustive=True, domain='every lunar day of lunar years 0..9999 + day 0 / count+1; order over 3-month windows', clause='lunar -> civil -> lunar identity; acceptance; before/after == chronological'),
    ],
}


REG['C19'] = {
    'level': 'proof',
    'design_ref': '5/C19',
    'technique': 'Kani harnesses with the index symbolic over each finite domain against an independent rule encoding (spec/classical_p.rs) + complete enumeration by native execution of every getter',
    'level_text': 'Finite domains, decided completely. Deductive part (Kani, real getters compiled in place, index symbolic over the whole domain): stem element/directions/rhymes, ten-star (10x10), five/six combinations, clash, harm, hidden main / middle / residual stems, branch element/direction/zodiac/ominous, stem polarity and the twelve growth stages (10 x 12, one harness per stem). Complete enumeration by execution (class L, exhaustive = the whole domain): ALL attributes incl. those with no Kani harness (Nayin, Xun, void branches, 28 mansions, nine stars, foetus tables, 366 zodiac-sign days, involution / inverse-pair laws).',
    'level_note': 'oracle = spec/classical_p.rs, written from the classical rules quoted in its comments, not copied from the library tables; name tables themselves (e.g. SOUND_NAMES strings) are data and not compared with an outside source; the growth-stage / polarity harnesses replace the Display impl of YinYang by a plain write_str of the same text (the `write!` machinery behind to_string() == to_string() is intractable), and the Option-valued hidden-stem getters forget their result after reading it (drop glue)',
    'functions': ['HeavenStem::get_element/get_yin_yang/get_direction/get_joy_direction/get_yang_direction/get_yin_direction/get_wealth_direction/get_mascot_direction/get_terrain/get_ten_star/get_combine/combine',
                  'EarthBranch::get_element/get_hide_heaven_stem_*/get_zodiac/get_direction/get_opposite/get_ominous/get_combine/combine/get_harm',
                  'SixtyCycle::get_heaven_stem/get_earth_branch/get_sound/get_ten/get_extra_earth_branches', 'Element::*', 'Direction::get_element', 'NineStar::*', 'TwentyEightStar::*', 'TwelveStar::get_ecliptic', 'FetusDay::new', 'SolarDay::get_constellation', 'MinorRen::*'],
    'K': [
        dict(id='c19_k', prefix=True, min_count=29,
             fn='HeavenStem / EarthBranch getters', clause='getter(index) == first-principles rule(index) for every index of the domain',
             paired_leaf=dict(check='c19_attributes', range=(0, 0), chunks=1)),
    ],
    'L': [
        dict(id='c19_attributes', check='c19_attributes', range=(0, 0), chunks=1, exhaustive=True, domain='10 stems, 12 branches, 10x10, 10x12, 12x12 pairs, 60 pillars, 9 stars, 28 mansions, 366 month-days',
             clause='every attribute getter == first-principles encoding; relations are involutions / inverse pairs'),
    ],
}

REG['C11'] = {
    'level': 'proof',
    'design_ref': '5/C11',
    'technique': 'Verus on AbstractCulture::index_of (symbolic size) and LunarMonth::next + group lemmas; generated Kani harness per cyclic type; Kani on every year/index carry pattern; execution for name lookups and object-heavy linear units',
    'level_text': 'Deductive part: index_of == Euclidean remainder for every isize index and every size (Verus, extracted verbatim) with the group laws as lemmas; for each cyclic type found in the sources (generated harness list) from_index(i).index == i mod size for every isize and next(n).index == (index+n) mod size (Kani); half-year/season/month/term/year stepping moves the ordinal by exactly n (Kani); lunar-month stepping by exactly n for any leap table (Verus, C03 unit); day/instant stepping from C01/C12. Leaf part (execution): index<->name inverse for every index of 41 types, unknown names refused; weeks, lunar hours, sexagenary units, fortunes stepped over windows.',
    'level_note': 'cycle harnesses of the six largest tables (God, Taboo, SixtyCycle, Phenology, Phase, Sound) run in the thorough tier only (2-12 min each); quick covers them by the name/step execution run; PHASE_NAMES repeats names by upstream design: 7 known findings for the name->index inverse',
    'functions': ['AbstractCulture::index_of', 'LoopTyme::from_index/next_index (through every cyclic type)', '<41 cyclic types>::from_index/next/get_index/get_size', 'SolarYear/SolarHalfYear/SolarSeason/SolarMonth::next', 'SolarTerm::next', 'LunarMonth::next', 'JulianDay::next'],
    'K': [
        dict(id='c11_cycle', prefix=True, min_count=30, thorough_names=['c11_cycle_god', 'c11_cycle_taboo', 'c11_cycle_sixtycycle', 'c11_cycle_phenology', 'c11_cycle_phase', 'c11_cycle_sound'],
             fn='<cyclic type>::from_index / next', clause='from_index(i).index == i mod size for every isize i; next(n).index == (index + n) mod size; size == table length',
             paired_leaf=dict(check='c11_names', range=(0, 0), chunks=1)),
        dict(id='c11_k_year_next', fn='SolarYear::next', clause='year moves by n'),
        dict(id='c11_k_halfyear_next', fn='SolarHalfYear::next', clause='2*year+index moves by exactly n (target year in 1..9999)'),
        dict(id='c11_k_season_next', fn='SolarSeason::next', clause='4*year+index moves by exactly n'),
        dict(id='c11_k_month_next', fn='SolarMonth::next', clause='12*year+month-1 moves by exactly n'),
        dict(id='c06_k_next', fn='SolarTerm::next', clause='24*year+index moves by exactly n'),
        dict(id='c08_k_month_next', thorough_only=True, fn='SixtyCycleMonth::next', clause='12*year + index moves by exactly n (|n| <= 300)'),
        dict(id='c11_k_div_euclid_12', fn='isize::div_euclid (std)', clause='the assumed Verus specification of div_euclid for the divisor 12: floor division, remainder in 0..12'),
        dict(id='c02_k_lunar_day_next', fn='LunarDay::next', clause='goes through the civil calendar with exactly n'),
        dict(id='c11_k_sixty_year_next', fn='SixtyCycleYear::new / next / get_sixty_cycle', clause='accepted exactly for -1..=9999; next adds n; year pillar == (year - 4) mod 60'),
        dict(id='c11_k_sixty_day_next', fn='SixtyCycleDay::next', clause='hands exactly n to SolarDay::next on the wrapped day and rebuilds from exactly the day that comes back'),
        dict(id='c11_k_sixty_hour_next', fn='SixtyCycleHour::next', clause='hands exactly n (seconds) to SolarTime::next on the wrapped instant and rebuilds from exactly the instant that comes back'),
        dict(id='c11_k_lunar_hour_carry', fn='LunarHour::next', clause='hour + 2n == 24 * (days handed to LunarDay::next) + new hour, 0 <= new hour < 24, minute and second kept, every hour and |n| < 2^40 (day step and constructor replaced by recording stubs)'),
        dict(id='c11_k_jd_next', thorough_only=True, fn='JulianDay::next / subtract', clause='f64 addition of n days is exact for |n| < 2^31 on half-integral dates'),
    ],
    'V': [
        dict(id='c11_month_next', template='verus/c11_month_next.rs', twin_quick=True,
             twin=[('ensures r.wf(), r.pos() == self.pos() + n,', 'ensures r.wf(), r.pos() == self.pos() + n + 12,')],
             clause='SixtyCycleMonth::next moves the position 12*year + index by exactly n for every n whose target year stays in -1..=9999; the month pillar moves by n; get_index_in_year counts from the Yin month',
             paired_leaf=[dict(id='c11_month_search', check='c11_linear', range=(1, 9998), chunks=32)]),
        dict(id='c11_index_of', template='verus/c11_index_of.rs', twin_quick=True,
             twin=[('ensures r == (index as int) % (size as int), 0 <= r < size,', 'ensures r == (index as int) % (size as int) + 1, 0 <= r < size,')],
             clause='index_of(index, size) == index mod size (Euclidean) for all isize/usize; group laws of modular stepping'),
        dict(id='c03_month_step', template='verus/c03_month_step.rs', clause='LunarMonth::next moves the month ordinal by exactly n'),
        dict(id='c12_time_next', template='verus/c12_time_next.rs', clause='SolarTime::next moves the absolute second by exactly n'),
        dict(id='c14_week_step', template='verus/c14_week_step.rs', clause='SolarWeek::next / LunarWeek::next move the first day by exactly 7n'),
    ],
    'L': [
        dict(id='c12_step', check='c12_step', range=(1, 9999), chunks=64, domain='boundary + pseudo-random instants per year x offsets up to +-1e9', clause='SolarTime::next(n) moves by exactly n seconds; subtract and order agree'),
        dict(id='c11_names', check='c11_names', range=(0, 0), chunks=1, exhaustive=True, domain='every index of 41 cyclic types + one unknown name each', clause='from_name(from_index(i).get_name()).index == i; unknown names refused'),
        dict(id='c11_linear', check='c11_linear', range=(1, 9998), chunks=64, domain='one value per year of each linear unit x step pairs', clause='next(0)==x, next(a).next(b)==next(a+b), next(a).next(-a)==x and unit size for weeks, lunar days/hours, sexagenary year/month/day/hour, terms, festivals'),
    ],
}

REG['C12'] = {
    'level': 'proof',
    'design_ref': '5/C12',
    'technique': 'Verus on SolarTime::next / subtract extracted verbatim; Kani on ordering, validation and the instant->JD->instant round trip through the f64 chain (sliced); grid execution for fractional Julian dates',
    'level_text': 'Deductive part: adding n seconds moves the absolute second by exactly n for every instant and |n| <= 4e11 (Verus, real carries; day part by the C01 day-stepping contract, hence across months, years and the 1582 gap); difference == distance in seconds (Verus); before/after == lexicographic (date, second-of-day) (Kani); acceptance of clock fields (Kani); instant -> Julian date -> instant identity for all 86,400 seconds of every date (Kani, f64 bit-precise; quick: stated subset of 100 year-slices, thorough: all). Arbitrary fractional Julian dates: thorough tier proves it for every f64 in range (Kani, c12_k_jd_fraction, 16 slices x ~10 min); quick tier executes a fine grid around every rounding/carry boundary (bounded).',
    'level_note': 'E8 desugaring of `x %= 60` in the Verus extraction; arbitrary-fraction JD->instant is proved only in the thorough tier (measured 537 s per slice), the quick tier uses the grid; the last half second of 9999-12-31 rounds to year 10000 and is refused (outside the claim)',
    'functions': ['SolarTime::next', 'SolarTime::subtract', 'SolarTime::is_before/is_after/eq', 'SolarTime::new', 'SolarTime::get_julian_day', 'JulianDay::from_ymd_hms', 'JulianDay::get_solar_time'],
    'K': [
        dict(id='c12_k_time_order', fn='SolarTime::is_before / is_after / eq', clause='strict lexicographic order on (date, second of day)'),
        dict(id='c12_k_time_accept', fn='SolarTime::new', clause='accepted <=> hour<24, minute<60, second<60 (valid date)'),
        dict(id='c12_k_time_subtract', thorough_only=True, fn='SolarTime::subtract', clause='== 86400*day difference + difference of seconds of day (Kani cross-check of the Verus obligation)'),
        dict(id='c12_k_jd_roundtrip', sliced=True, quick=dict(boundary=['v:1582', -1], sample=1), fn='SolarTime::get_julian_day / JulianDay::get_solar_time',
             clause='t.get_julian_day().get_solar_time() == t for every valid date and every second of the day',
             paired_leaf=dict(check='c12_roundtrip', range=(1, 9999), chunks=32)),
        dict(id='c12_k_jd_fraction', sliced=True, thorough_only=True, fn='JulianDay::get_solar_time',
             clause='for EVERY f64 Julian date in range (symbolic day number x every fraction in [0,1)): clock fields in range, valid date, same or next day, within 0.5 s (+1e-4 f64 resolution) of the Julian date',
             paired_leaf=dict(check='c12_fraction', range=(1, 9999), chunks=32)),
    ],
    'V': [
        dict(id='c12_time_next', template='verus/c12_time_next.rs', twin_quick=True,
             twin=[('ensures r.wf(), r.abs() == self.abs() + n,', 'ensures r.wf(), r.abs() == self.abs() + n + 1,')],
             clause='SolarTime::next: absolute second moves by exactly n; SolarTime::subtract == difference of absolute seconds',
             paired_leaf=[dict(id='c12_search', check='c12_step', range=(1, 9999), chunks=32)]),
    ],
    'L': [
        dict(id='c12_step', check='c12_step', range=(1, 9999), chunks=64, domain='boundary + pseudo-random instants per year x offsets up to +-1e9', clause='next(n).subtract(t) == n; order == sign of difference'),
        dict(id='c12_roundtrip', check='c12_roundtrip', range=(1, 9999), chunks=64, domain='month/year ends and random days x every rounding-critical second', clause='instant -> JD -> instant identity'),
        dict(id='c12_fraction', check='c12_fraction', range=(1, 9999), chunks=64, domain='JD grid (1/16 s) around hh:59:59.5, 23:59:59.5 on month/year ends and the 1582 gap', clause='any JD in range -> valid instant within 0.5 s'),
    ],
}

REG['C13'] = {
    'level': 'proof',
    'design_ref': '5/C13',
    'technique': 'Kani on the civil containers (all years/months symbolic, constant-bound loops with unwinding assertions) + Verus on LunarYear::get_months + execution for lunar/sexagenary lists',
    'level_text': 'Deductive part: a civil year lists 2 half-years, 4 seasons, 12 months that nest correctly; a month lists exactly the dates that exist in it, in order, count == day count (incl. October 1582) for every year and month (Kani); a lunar year lists exactly its 12/13 months in order and a lunar month its days 1..day count (Verus, C03 unit); a lunar day is accepted exactly for 1..day count, a lunar hour for valid clock components, and a lunar day asks for exactly the 13 slots 0:00, 1:00, 3:00, .., 23:00 (Kani); a sexagenary year lists its 12 months and a sexagenary month the days from its Jie day to the day before the next (Verus, any increasing Jie-day table). a sexagenary day lists the 12 double-hour instants from 23:00 of the previous day (Verus). Leaf part (execution): the same lists on the real objects.',
    'level_note': 'lunar/sexagenary day and hour objects (RefCell, f64, name tables) are outside both verifiers: execution only, labelled bounded',
    'functions': ['SolarYear::get_months/get_seasons/get_half_years', 'SolarHalfYear::get_months/get_seasons', 'SolarSeason::get_months', 'SolarMonth::get_season/get_days', 'LunarYear::get_months', 'LunarMonth::get_days', 'LunarDay::new', 'LunarHour::new', 'LunarDay::get_hours', 'SixtyCycleYear::get_months', 'SixtyCycleMonth::get_days', 'SixtyCycleDay::get_hours'],
    'K': [
        dict(id='c13_k_year_parts', fn='SolarYear / SolarHalfYear / SolarSeason lists', clause='2/4/12 parts in order, nesting correct'),
        dict(id='c13_k_month_days', fn='SolarMonth::get_days', clause='lists exactly the existing dates of the month in order; count == month length',
             paired_leaf=dict(check='c13_solar', range=(1, 9999), chunks=32)),
        dict(id='c01_k7_lengths', fn='SolarMonth::get_day_count / SolarYear::get_day_count', clause='== calendar spec'),
        dict(id='c13_k_lunar_day_accept', fn='LunarDay::new', clause='accepted <=> 1 <= day <= day count of the month (month lookup replaced by an arbitrary well-formed month); components stored as given'),
        dict(id='c13_k_lunar_hour_accept', fn='LunarHour::new', clause='accepted <=> hour <= 23, minute <= 59, second <= 59; built on the same (year, month, day)'),
        dict(id='c13_k_lunar_day_hours', fn='LunarDay::get_hours', clause='asks for exactly the 13 slots 0:00, 1:00, 3:00, ..., 23:00 of its own day, in order (constructor replaced by a recording stub)'),
    ],
    'V': [
        dict(id='c13_sixty_lists', template='verus/c13_sixty_lists.rs', twin_quick=True,
             twin=[('ensures r@.len() == 12, forall|j: int| 0 <= j < 12 ==> (#[trigger] r@[j]).pos() == 12 * self.year + j,', 'ensures r@.len() == 12, forall|j: int| 0 <= j < 12 ==> (#[trigger] r@[j]).pos() == 12 * self.year + j + 1,')],
             clause='SixtyCycleYear::get_months lists exactly positions 12*year..12*year+11 in order; SixtyCycleMonth::get_days lists exactly the days from its Jie day to the day before the next Jie day, in order (any strictly increasing Jie-day table); SixtyCycleDay::get_hours lists exactly the 12 double-hour instants from 23:00 of the previous day, 7200 s apart',
             paired_leaf=[dict(id='c13_search', check='c13_lunar', range=(0, 9998), chunks=32)]),
        dict(id='c03_month_step', template='verus/c03_month_step.rs', clause='LunarYear::get_months lists exactly ordinals mb(y)..mb(y)+msize(y)-1 in order; LunarMonth::get_days lists exactly days 1..day_count of the month in order'),
    ],
    'L': [
        dict(id='c13_solar', check='c13_solar', range=(1, 9999), chunks=64, exhaustive=True, domain='every civil year/month', clause='day-of-year and year length agree with the month lists'),
        dict(id='L-NEW', check='l_new', range=(0, 9999), chunks=32, exhaustive=True, domain='every lunation of lunar years 0..9999', clause='a lunar month has 29 or 30 days and a lunar year 12 or 13 months (the lengths the lists below are compared with)'),
        dict(id='c13_lunar', check='c13_lunar', range=(0, 9998), chunks=64, domain='every lunar month (days), first / last / one seed-rotated day of each month (hours), every sexagenary month of every year', clause='lists == their parts'),
    ],
}

REG['C07'] = {
    'level': 'proof',
    'design_ref': '5/C07',
    'technique': 'Kani on the weekday formula through the f64 cast (every day number) + Verus lemmas for continuity + exhaustive execution of all three pillar routes over every date',
    'level_text': 'Deductive part: JulianDay::get_week == (day number + 1) mod 7 for every day number in range (Kani, f64 cast path); +1 per civil day incl. the 1582 cut-over from C01 lemmas. Leaf part (exhaustive execution, every civil date 0001..9999): day pillar == (day number + 49) mod 60 by the lunar-date route, the sexagenary-day view and the civil date; weekday by the civil and lunar routes.',
    'level_note': 'LunarDay::get_sixty_cycle goes through format!/from_name (out of Kani reach, DESIGN 2.3): Kani proves the indices fed to the lookup (recording stubs), the lookup itself is the pillar-name table fact of C19, and the composite is executed for every date; known findings: reform-year windows (consequence of C03) and 0001-01-01..05 (year-0 term)',
    'functions': ['JulianDay::get_week', 'SolarDay::get_week', 'LunarDay::get_sixty_cycle (arguments of the name lookup)', 'SixtyCycleDay::from_solar_day (day pillar carried: c08_k_from_solar_day_*)', 'LunarDay::get_week', 'name lookup SixtyCycle::from_name (table fact, C19)'],
    'K': [
        dict(id='c07_k_week', sliced=True, quick='all', fn='JulianDay::get_week', clause='index == (N + 1) mod 7 for every integer day number N of 0001-01-01..9999-12-31'),
        dict(id='c07_k_solar_day_week', fn='SolarDay::get_week', clause='== (day number + 1) mod 7 for every valid civil date (through the proved contract of JulianDay::from_ymd_hms)'),
        dict(id='c07_k_lunar_day_week', fn='LunarDay::get_week', clause='the weekday of its civil date (callees recorded)'),
        dict(id='c07_k_lunar_day_pillar_args', fn='LunarDay::get_sixty_cycle', clause='the stem and branch indices fed to the name lookup are first day number + day - 12 (== day number - 11, i.e. pillar (day number + 49) mod 60); real body, constructors replaced by recording stubs, name lookup decomposed (C19 pillar_name)'),
    ],
    'V': [
        dict(id='c01_v_calendar', template='verus/c01_calendar.rs', clause='day number grows by exactly one per civil day (month/year ends, 1582 cut-over) => pillar and weekday advance one step per day'),
    ],
    'L': [
        dict(id='c07_pillar_week', check='c07_pillar_week', range=(1, 9999), chunks=64, exhaustive=True, domain='every civil date 0001-01-01..9999-12-31', clause='pillar by three routes == (jdn+49) mod 60; weekday by two routes == (jdn+1) mod 7'),
    ],
}



REG['C08'] = {
    'K': [dict(id='c11_k_sixty_year_next', fn='SixtyCycleYear::get_sixty_cycle', clause='year pillar == (year - 4) mod 60 for every year -1..=9999'),
          dict(id='c08_k_first_month_args', fn='SixtyCycleYear::get_first_month', clause='stem index fed to the name lookup == Five-Tigers stem of the year stem, every year -1..9999 (index-faithful cheap constructors)'),
          dict(id='c08_k_month_next', thorough_only=True, fn='SixtyCycleMonth::next / get_index_in_year', clause='12*year + index moves by exactly n and the pillar by n, every month and |n| <= 300 (wider n: solver budget)'),
          dict(id='c08_k_month_pillar_args', fn='LunarMonth::get_sixty_cycle', clause='branch index == 2 + position, stem index == Five-Tigers stem + position (mod 10/12), every year and position'),
          dict(id='c08_k_from_solar_day', prefix=True, min_count=3, fn='SixtyCycleDay::from_solar_day (term positions 0..=26 split over three harnesses)', clause='real body over ARBITRARY callee answers (start of spring, lunar date, governing term and its day, constrained only by C06 order and C02 year adjacency): year pillar year == civil year from the start-of-spring day on, previous year before it; month pillar == first-month pillar advanced by floor((term position - 3)/2); day pillar and date carried'),
          dict(id='c09_k_from_solar_time', prefix=True, min_count=3, thorough_only=True, fn='SixtyCycleHour::from_solar_time (quick tier: run under C09)', clause='same at instant granularity: the year and month pillars switch at the term INSTANT; day pillar advanced by one from 23:00; hour pillar carried'),
          dict(id='c08_k_pair_lemma', fn='(lemma over the contracts above)', clause='with pillar year Y (civil year or the one before, by start of spring) and month pillar = first-month pillar of the civil year + k: month branch == Yin + k and month stem == Five-Tigers stem of the stem of Y + position; hence only legal year/month pairs')],
    'level': 'other',
    'design_ref': '5/C08',
    'technique': 'Kani on the real bodies of SixtyCycleDay::from_solar_day / SixtyCycleHour::from_solar_time over arbitrary answers of their callees (year pillar at Lichun, month pillar at each Jie), on the Five-Tigers arguments and on month stepping; Verus on the term search; the composite contract executed exhaustively over every civil date and around every Jie instant',
    'level_text': 'Deductive part (Kani, real bodies): SixtyCycleDay::from_solar_day and SixtyCycleHour::from_solar_time are proved over ARBITRARY answers of the four things they ask for (start of spring of the civil year, lunar date, governing term and its day/instant; assumed only: terms are ordered with start of spring = term 3 [C06], the lunar year is the civil year or a neighbour [C02]): pillar year == civil year from the start of spring on and the previous year before it, month pillar == first-month pillar advanced by floor((term position - 3)/2) (so it changes at each Jie and only there), day pillar advanced at 23:00 in the instant view; the Five-Tigers indices of SixtyCycleYear::get_first_month and LunarMonth::get_sixty_cycle (recording stubs); the closing arithmetic lemma (month stem == Five Tigers of the PILLAR year stem, only the 60x12 legal pairs); SixtyCycleMonth::next; the term search (C06 Verus unit). Bounded part: the composite contract stated over the term table (Y = floor((k-3)/24), Yin month at Lichun, stem by Five Tigers) executed for every civil date 0001..9998 (day view) and for the second before/at/after every Jie instant plus one random instant per term (time view, incl. agreement with the day view on days without a Jie). Term instants themselves are astronomy (L-TD, executed).',
    'level_note': 'exhaustive execution over the finite day domain is complete for the day view but is NOT a proof about the code for all inputs in the sense of K/V; time view is sampled around the switching instants; known findings: day pillar in the reform-year windows (consequence of C03)',
    'explanation': 'bounded stand-in: exhaustive execution of the day-view contract over all 3.65 M dates, boundary-biased execution of the time view; term-search obligations are proved in C06',
    'functions': ['SixtyCycleDay::from_solar_day', 'SixtyCycleHour::from_solar_time', 'SixtyCycleYear::get_first_month', 'LunarMonth::get_sixty_cycle', 'SixtyCycleMonth::next / get_index_in_year', 'SolarDay::get_term / SolarTime::get_term (C06 unit)'],
    'V': [
        dict(id='c11_month_next', template='verus/c11_month_next.rs', twin_quick=True,
             twin=[('ensures r.wf(), r.pos() == self.pos() + n,', 'ensures r.wf(), r.pos() == self.pos() + n + 12,')],
             clause='SixtyCycleMonth::next moves the position 12*year + index by exactly n for every n whose target year stays in -1..=9999; the month pillar moves by n; get_index_in_year counts from the Yin month',
             paired_leaf=[dict(id='c08_month_search', check='c11_linear', range=(1, 9998), chunks=32)]),
        dict(id='c06_term_search', template='verus/c06_term_search.rs', clause='the governing term of a date / instant is the latest one starting on or before it (the month pillar switches exactly at Jie days / instants)'),
    ],
    'L': [
        dict(id='c08_day_view', check='c08_day_view', range=(1, 9998), chunks=64, exhaustive=True, domain='every civil date 0001-01-06..9998-12-31', clause='year pillar == (Y-4) mod 60 with Y switching at the Lichun day; month pillar by Jie day and Five Tigers; only legal pairs'),
        dict(id='c08_time_view', check='c08_time_view', range=(2, 9997), chunks=64, domain='every term x {instant, -1 s, +1 s, random instant}', clause='same rule at the exact term instant; agrees with the day view on days without a Jie; day pillar rolls at 23:00'),
        dict(id='c11_linear', check='c11_linear', range=(1, 9998), chunks=64, domain='one sexagenary month per year x steps', clause='SixtyCycleMonth::next moves 12*year+index by exactly n'),
    ],
}

REG['C09'] = {
    'harness_timeout': {'quick': '25m', 'thorough': '60m'}, 'wall_timeout': {'quick': 2700, 'thorough': 6 * 3600},
    'K': [dict(id='c09_k_hour_index', fn='LunarHour::get_index_in_day', clause='index in day == floor((hour+1)/2) for every hour and every lunar day'),
          dict(id='c09_k_hour_pillar_args', fn='LunarHour::get_sixty_cycle', clause='for all 60 day pillars x 24 hours: branch index fed to the name lookup == floor((h+1)/2) mod 12, stem index == Five-Rats stem of the day stem (next day from 23:00) + branch (mod 10); real body, index-faithful cheap constructors + recording stubs'),
          dict(id='c09_k_from_solar_time', prefix=True, min_count=3, fn='SixtyCycleHour::from_solar_time (term positions split over three harnesses)', clause='the four pillars are composed from the lunar day pillar (advanced by one from 23:00), the lunar hour pillar, and the year / month pillars switching at the term instants; real body over arbitrary callee answers')],
    'level': 'other',
    'design_ref': '5/C09',
    'technique': 'Kani on the hour-pillar arguments and on SixtyCycleHour::from_solar_time (real bodies); Verus on the soundness clause of the inverse search (real body of EightChar::get_solar_times); hour-pillar contract (branch floor((h+1)/2) mod 12, Five Rats, 23:00 roll) executed over all 60 x 24 combinations; eight characters == four pillars; inverse search soundness/completeness by seeded execution',
    'level_text': 'Deductive part (Kani, real body of LunarHour::get_sixty_cycle, all 60 x 24): the branch and stem indices fed to the name lookup follow floor((h+1)/2) mod 12, the Five-Rats rule and the 23:00 roll. Finite part decided completely by execution: all 60 day pillars x 24 hours x {first, last second}: hour branch, hour stem by Five Rats from the (rolled) day stem, index in day, both eight-character providers. Composition on random instants 0002..9997. Inverse search (bounded, VERIF_SEED-driven): every returned instant has the characters, and the double-hour of the queried instant contains a returned instant (double-hours containing a Jie instant skipped).',
    'level_note': 'the hour-pillar functions build name-table objects through format! and cannot be symbolically executed (DESIGN 2.3); the 1,440-case enumeration is complete for the finite clause; the inverse search is sampled (about 2,000 searches per run), not proved',
    'explanation': 'exhaustive execution of the finite hour-pillar contract + bounded execution of composition and inverse-search contracts',
    'functions': ['LunarHour::get_sixty_cycle', 'LunarHour::get_index_in_day', 'SixtyCycleHour::from_solar_time', 'SixtyCycleHour::get_index_in_day', 'SixtyCycleHour::get_eight_char', 'DefaultEightCharProvider / LunarSect2EightCharProvider', 'EightChar::get_solar_times'],
    'V': [
        dict(id='c09_inverse_sound', template='verus/c09_inverse_sound.rs', twin_quick=True,
             twin=[('ensures r == (self.key() == other.key()) { unimplemented!() }', 'ensures r ==> true { unimplemented!() }')],
             clause='EightChar::get_solar_times returns only instants whose eight characters equal the sought ones and whose year is >= start_year, for every range (real body; every calendar callee arbitrary; the f64 cycle alignment havocked by rule E11)',
             paired_leaf=[dict(id='c09_inv_search', check='c09_inverse', range=(62, 9870), chunks=32)]),
    ],
    'L': [
        dict(id='c09_hour_pillar', check='c09_hour_pillar', range=(0, 0), chunks=1, exhaustive=True, domain='60 day pillars x 24 hours x 2 seconds', clause='hour pillar rule, 23:00 roll, eight characters == pillars'),
        dict(id='c09_compose', check='c09_compose', range=(2, 9997), chunks=64, domain='6 random instants per year', clause='eight characters == year, month, day, hour pillars; day/hour by rule'),
        dict(id='c09_inverse', check='c09_inverse', range=(62, 9870), chunks=64, domain='one search per 5 years (seed-rotated)', clause='inverse search sound and complete per double-hour'),
    ],
}

REG['C14'] = {
    'level': 'proof',
    'design_ref': '5/C14',
    'technique': 'Verus on SolarWeek::next and LunarWeek::next extracted verbatim (both loops each) + exhaustive execution of the week contract over every civil month x 7 week starts and every lunar month',
    'level_text': 'Deductive part: SolarWeek::next moves the first day by exactly 7n for every week, every n and any month-length / first-weekday tables consistent with consecutive months (Verus, real loops). Leaf part (exhaustive execution): for every civil month 0001-02..9999-11 and every lunar month, 7 week starts, all indices: count == number of rows, first day on the chosen weekday at day1 + 7*index - offset, 7 consecutive days, coverage, refusal of index == count; week of a date contains it; index in year.',
    'level_note': 'week count uses an f64 ceil (outside Verus): its contract ceil((offset+len)/7), assumed by the Verus unit, is proved by Kani on the real body (c14_k_*_week_count) and also executed for every month; the weekday of the first of the month is an arbitrary answer in those harnesses (the weekday formula itself is c07_k_week); LunarWeek::next is verified over an abstract tiling lunar month table (L-NEW)',
    'functions': ['SolarWeek::next', 'LunarWeek::next', 'SolarMonth::get_week_count', 'LunarMonth::get_week_count', 'SolarWeek::get_first_day', 'LunarWeek::get_first_day', 'SolarDay::get_solar_week', 'SolarWeek::get_days / get_index_in_year', 'LunarWeek::get_days', 'SolarWeek::new', 'LunarWeek::new'],
    'K': [
        dict(id='c14_k_solar_week_count', fn='SolarMonth::get_week_count', clause='== ceil((offset of the first of the month in its week + month length) / 7) through the f64 ceil, every month, week start and (arbitrary) weekday of the first'),
        dict(id='c14_k_solar_week_first_day', fn='SolarWeek::get_first_day', clause='steps 7*index - offset days from the first of the month (day step recorded)'),
        dict(id='c14_k_day_to_week', fn='SolarDay::get_solar_week', clause='week index == floor((days since the first + offset) / 7) of the same month and start, every valid date'),
        dict(id='c14_k_lunar_week_count', fn='LunarMonth::get_week_count', clause='same as the civil count for 29/30-day months'),
        dict(id='c14_k_solar_week_accept', fn='SolarWeek::new', clause='accepted <=> index <= 5, start <= 6 and index < week count of the month; components stored as given'),
        dict(id='c14_k_lunar_week_accept', fn='LunarWeek::new', clause='same rule for lunar weeks (leap months included)'),
        dict(id='c14_k_lunar_week_first_day', fn='LunarWeek::get_first_day', clause='steps 7*index - offset days from day 1 of the same lunar month (leap flag kept)'),
    ],
    'V': [
        dict(id='c14_week_step', template='verus/c14_week_step.rs', twin_quick=True,
             twin=[('r.first() == self.first() + 7 * n,', 'r.first() == self.first() + 7 * n + 7,')],
             clause='SolarWeek::next and LunarWeek::next: the first day moves by exactly 7n, from_ym never refused; get_days lists the 7 consecutive days from the first day (both views); SolarWeek::get_index_in_year counts weeks from the week 0 of January and terminates; lemmas: a week starts on the chosen weekday, the weeks of a month cover every day of it',
             paired_leaf=[dict(id='c14_search', check='c14_solar_weeks', range=(1, 9999), chunks=32)]),
    ],
    'L': [
        dict(id='c14_solar_weeks', check='c14_solar_weeks', range=(1, 9999), chunks=64, exhaustive=True, domain='every civil month x 7 week starts x all indices; 4 dates per month x 7 step counts', clause='week count / first day / 7 days / coverage / week of date / stepping by 7n / index in year'),
        dict(id='c14_lunar_weeks', check='c14_lunar_weeks', range=(30, 9990), chunks=64, exhaustive=True, domain='every lunar month x 7 week starts x all indices', clause='same for lunar months'),
    ],
}

REG['C15'] = {
    'level': 'proof',
    'design_ref': '5/C15',
    'technique': 'Verus on get_nine_day / get_dog_day / get_plum_rain_day / get_phenology_day extracted verbatim against spec functions over an uninterpreted term-day table and the day pillar; exhaustive execution incl. the commanding-stem allotment table',
    'level_text': 'Deductive part (Verus, real function bodies, any monotone term table): Nines = the 81 days from the winter-solstice day in nines and no other day; Dog days from the third Geng on/after the summer solstice with the 10/20-day middle period decided by the fifth Geng vs start-of-autumn; Plum rains from the first Bing on/after Grain-in-Ear to the first Wei on/after Slight Heat; pentads 0-4 / 5-9 / 10+. Leaf part (exhaustive execution over every civil date 0002..9998): the same four series plus the commanding stem against the classical allotment table re-encoded independently.',
    'level_note': 'get_hide_heaven_stem_day parses a packed digit string with str slicing (outside Verus): Kani, one harness per governing term; callee contracts: term days (L-TD), pillar of a day (C07), steps_to (C11), SolarDay::next/subtract (C01)',
    'functions': ['SolarDay::get_nine_day', 'SolarDay::get_dog_day', 'SolarDay::get_plum_rain_day', 'SolarDay::get_phenology_day', 'LoopTyme::steps_to', 'Into<LoopTyme> for HeavenStem / EarthBranch', 'SolarDay::get_hide_heaven_stem_day'],
    'K': [
        dict(id='c15_k_steps_to', prefix=True, min_count=2, fn='LoopTyme::steps_to', clause='== (target - index) mod size for table sizes 10 and 12, every index and |target| < 2^31 (the steps_to contract of the Verus unit)'),
        dict(id='c15_k_commanding_stem', prefix=True, min_count=24, fn='SolarDay::get_hide_heaven_stem_day', clause='for each of the 24 governing terms and every day offset 0..=31 of the Jie month: (stem, slot residual/middle/main, day index inside the slot) handed to the constructors == the classical per-month allotment (packed string decoded on the real body; term and offset are stub answers)'),
        dict(id='c15_k_into_loop_stem', fn='Into<LoopTyme> for HeavenStem', clause='keeps the index, size 10 (the verif_into contract of the Verus unit, extraction rule E9)'),
        dict(id='c15_k_into_loop_branch', fn='Into<LoopTyme> for EarthBranch', clause='keeps the index, size 12'),
    ],
    'V': [
        dict(id='c15_series', template='verus/c15_series.rs', twin_quick=True,
             twin=[('nine_spec(self.jdn(), TD(24 * self.y() + 24), TD(24 * self.y())),', 'nine_spec(self.jdn() + 1, TD(24 * self.y() + 24), TD(24 * self.y())),')],
             clause='the four term-anchored series equal their spec functions over TD and the day pillar',
             paired_leaf=[dict(id='c15_search', check='c15_series', range=(2, 9998), chunks=32)]),
    ],
    'L': [
        dict(id='c15_series', check='c15_series', range=(2, 9998), chunks=64, exhaustive=True, domain='every civil date 0002-01-01..9998-12-31', clause='Nines, Dog days, Plum rains, pentads, commanding stems == oracle re-derived from term days and (jdn+49) mod 60'),
    ],
}

REG['C16'] = {
    'level': 'proof',
    'design_ref': '5/C16',
    'technique': 'Verus on the unit conversion of all four shipped get_info bodies (Default, China95, LunarSect1, LunarSect2), on decade / yearly fortunes and AbstractChildLimitProvider::next (day-overflow loop) extracted verbatim; seeded execution of ChildLimit / fortunes for all four strategies',
    'level_text': 'Deductive part (Verus, real code): seconds -> (years, months, days, hours, minutes) at 3 d = 1 y, 1 d = 4 mo, 1 h = 5 d, 1 min = 2 h, 1 s = 2 min exactly (259200*Y + 21600*M + 720*D + 30*H + Mi/2 == seconds, field ranges), the minute-based forms of China95 (4320*Y + 360*M + 12*D <= minutes < +12) and LunarSect2 (4320*Y + 360*M + 12*D + H/2 == minutes), the double-hour form of LunarSect1 (360*Y + 30*M + D == 10 * double-hours between the two instants counted by day and double-hour index); decade fortunes step the month pillar by +-(i+1) with start ages 10 apart, yearly fortunes step the hour pillar by +-age from the year the limit ends; the calendar addition carries seconds->minutes->hours->days and overflows days month by month, terminating with a day inside the month. Leaf part (bounded, seeded): direction rule, governing Jie, end == birth + units, never before birth / at most 11 years, decade and yearly fortunes, the three other shipped strategies.',
    'level_note': 'ChildLimit::from_solar_time touches the provider mutex, f64 term instants and name-table pillars: executed on 7 births x 2 genders per year (seed-rotated), not proved; callee contracts: SolarMonth::next/get_day_count (C11/C01), SolarTime::subtract (C12)',
    'functions': ['DefaultChildLimitProvider::get_info', 'China95ChildLimitProvider::get_info', 'LunarSect1ChildLimitProvider::get_info', 'LunarSect2ChildLimitProvider::get_info', 'AbstractChildLimitProvider::next', 'DecadeFortune::new / next / get_start_age / get_end_age / get_start_sixty_cycle_year / get_end_sixty_cycle_year / get_sixty_cycle / get_start_fortune', 'Fortune::new / next / get_age / get_sixty_cycle_year / get_sixty_cycle', 'ChildLimit::from_solar_time (K, thorough tier; leaf in the quick tier)'],
    'harness_timeout': {'quick': '10m', 'thorough': '40m'},
    'K': [
        dict(id='c16_k_direction', prefix=True, min_count=4, thorough_only=True, fn='ChildLimit::from_solar_time',
             clause='real body incl. the strategy lock and dynamic dispatch: luck runs forward exactly for Yang-year men and Yin-year women; the Jie handed to the strategy is the one opening the birth\'s term month when backward, the next one when forward (one harness per polarity x gender, arbitrary year pillar of that polarity and arbitrary governing term; ~9 min each, hence thorough tier; the quick tier executes the rule on 14 births per year)'),
    ],
    'V': [
        dict(id='c16_child_limit', template='verus/c16_child_limit.rs', twin_quick=True,
             twin=[('r.minute_count / 2 == abs_diff(term.ti(), birth_time.abs()),', 'r.minute_count / 2 == abs_diff(term.ti(), birth_time.abs()) + 1,')],
             clause='unit conversion is exact; calendar addition with carries ends on a valid day of the carried month',
             paired_leaf=[dict(id='c16_search', check='c16_child_limit', range=(2, 9950), chunks=32)]),
        dict(id='c16_fortunes', template='verus/c16_fortunes.rs', twin_quick=True,
             twin=[('ensures r == self.child_limit.end_year() - self.child_limit.birth_year() + 1 + 10 * self.index,', 'ensures r == self.child_limit.end_year() - self.child_limit.birth_year() + 10 * self.index,')],
             clause='decade fortunes step the month pillar by +-(i+1) with start ages 10 apart from (end year - birth year + 1); yearly fortunes step the hour pillar by +-age from the year the limit ends; stepping adds to the index',
             paired_leaf=[dict(id='c16_fsearch', check='c16_child_limit', range=(2, 9950), chunks=32)]),
    ],
    'L': [
        dict(id='c16_child_limit', check='c16_child_limit', range=(2, 9950), chunks=64, domain='7 births (3 random, 3 within 30 s of a Jie, 1 month end 23:59) x 2 genders per year', clause='direction, governing Jie, units, end time, bounds, fortunes, four strategies'),
    ],
}

REG['C17'] = {
    'K': [dict(id='c17_k_six_star', fn='LunarDay::get_six_star', clause='== (|month| + day - 2) mod 6 for every (month incl. leap, day)'),
          dict(id='c17_k_minor_ren', fn='LunarDay::get_minor_ren / LunarMonth::get_minor_ren', clause='== ((|month|-1) mod 6 + day - 1) mod 6'),
          dict(id='c17_k_duty', fn='SixtyCycleDay::get_duty', clause='== (day branch - month branch) mod 12; Jian <=> equal branches; all 60 x 60 pillar pairs'),
          dict(id='c17_k_twelve_star', fn='SixtyCycleDay::get_twelve_star', clause='Azure Dragon at the branch fixed by the month branch, advancing with the day branch; all 60 x 60 pillar pairs'),
          dict(id='c17_k_year_nine_star', fn='SixtyCycleYear::get_nine_star / LunarYear::get_nine_star', clause='descending-year rule from 1864 = One White, every year -1..9999 (f64 floor path)'),
          dict(id='c17_k_month_nine_star', fn='SixtyCycleMonth::get_nine_star', clause='branch-group rule: first star 8/5/2 by year branch mod 3, descending per month; every (year, month pillar)'),
          dict(id='c17_k_lunar_hour_twelve_star', fn='LunarHour::get_twelve_star', clause='hour spirits on the lunar-hour view: day branch of the INSTANT view (rolled at 23:00), not of the lunar day; hour branch of this view; all 60 x 60 x 60 pillar triples'),
          dict(id='c17_k_lunar_hour_nine_star', fn='LunarHour::get_nine_star', clause='hour nine star on the lunar-hour view: start 8/5/2 by day branch mod 3 descending, mirrored and ascending between the solstice days (arbitrary solstice dates), advancing with floor((hour+1)/2) mod 12'),
          dict(id='c17_k_hour_twelve_star', thorough_only=True, fn='SixtyCycleHour::get_twelve_star', clause='hour spirits start at the branch fixed by the day branch; all 60 x 60 pairs')],
    'level': 'other',
    'design_ref': '5/C17',
    'technique': 'Kani on the index arithmetic of the day officer, twelve spirits, six-day star, minor Ren, year and month nine stars (real bodies, index-faithful cheap constructors) + Verus on the day and hour nine stars (real bodies, uninterpreted term-day table) + the defining recurrences executed exhaustively over every civil date, every lunar year and every (year branch, month) pair',
    'level_text': 'Deductive part (Kani, all pillar pairs / all years): day officer == (day branch - month branch) mod 12 with Jian <=> equal, twelve spirits of day and hour (both hour views), hour nine star of the lunar-hour view, six-day star, minor Ren, year star, month star; (Verus, every day and any term table) day star of both views by the solstice-turning rule, hour star of the sexagenary-hour view. Bounded part (exhaustive execution over finite day/year domains, incl. the series that need term days): day officer == (day branch - month branch) mod 12 (Jian <=> equal) and +1 per day within a sexagenary month; twelve spirits start at the branch fixed by the month (hour: day) branch; 28 mansions +1 per day with luminary == weekday; six-day star (|month| + day - 2) mod 6; moon phase; minor Ren; year nine star descending from 1864 = 1, month star by branch group, day star turning at the Jiazi days nearest the solstices, hour star. The formulas are one-line index arithmetic wrapped in name-table objects (17 s per Kani harness and format!-bound), so the finite domains are enumerated by execution instead.',
    'level_note': 'exhaustive over dates 0002..9998 and years -1..9999; hours: 12 double-hours of the 1st and 15th of every month; known findings in the reform-year windows (consequence of C03); LunarMonth month star is checked only up to the leap month (after it the deprecated lunar-month pillar is shifted by upstream design), SixtyCycleMonth for all months',
    'explanation': 'exhaustive execution of the recurrence contracts over their finite domains',
    'functions': ['SixtyCycleDay::get_duty / get_twelve_star / get_twenty_eight_star / get_nine_star', 'LunarDay::get_six_star / get_phase / get_minor_ren / get_nine_star', 'LunarYear::get_nine_star', 'LunarMonth::get_nine_star', 'SixtyCycleMonth::get_nine_star', 'SixtyCycleHour::get_twelve_star / get_nine_star', 'LunarHour::get_twelve_star / get_nine_star'],
    'V': [
        dict(id='c17_day_star', template='verus/c17_day_star.rs', twin_quick=True,
             twin=[('else if n >= s0 && n < w1 { (8 - (n - s0)) % 9 }', 'else if n >= s0 && n < w1 { (9 - (n - s0)) % 9 }')],
             clause='SixtyCycleDay::get_nine_star and LunarDay::get_nine_star == the solstice-turning rule (forward from the Jiazi day nearest the winter solstice, backward from the one nearest the summer solstice) over any term-day table; SixtyCycleHour::get_nine_star / get_index_in_day == the hour-star rule',
             paired_leaf=[dict(id='c17_search', check='c17_day_series', range=(2, 9997), chunks=32)]),
    ],
    'L': [
        dict(id='c17_day_series', check='c17_day_series', range=(2, 9998), chunks=64, exhaustive=True, domain='every civil date 0002..9998; all 24 hours of two (seed-rotated) days of each month', clause='daily and hourly recurrences'),
        dict(id='c17_year_month_stars', check='c17_year_month_stars', range=(-1, 9999), chunks=16, exhaustive=True, domain='every year -1..9999 and every (year, month)', clause='year / month flying stars'),
    ],
}

REG['C18'] = {
    'level': 'other',
    'design_ref': '5/C18',
    'technique': 'exhaustive execution of the decoders (regex / split over the packed tables) over all 720 + 720 pillar pairs, 151 spirits and all years',
    'level_text': 'Finite domains enumerated completely by execution: for each of 12 month branches x 60 day pillars the spirits, recommended and avoided activities decode without failure into entries of their name lists, at least one spirit per day, recommend and avoid disjoint; likewise 60 day pillars x 12 hour branches; each spirit classed auspicious iff index < 60; the kitchen-god attributes re-derived from the New-Year day pillar for every year 0..9999.',
    'level_note': 'regex and str::split over ~60 KB literals are outside both verifiers (DESIGN L-RX); complete enumeration of a finite domain, labelled exhaustive execution, not proof',
    'explanation': 'exhaustive execution over the complete finite domain',
    'functions': ['God::get_day_gods', 'God::get_luck', 'Taboo::get_day_recommends / get_day_avoids / get_hour_recommends / get_hour_avoids', 'KitchenGodSteed::*'],
    'L': [
        dict(id='c18_tables', check='c18_tables', range=(-1, 9999), chunks=16, exhaustive=True, domain='720 + 720 pairs, 151 spirits, years 0..9999', clause='total, well-formed, disjoint, consistent'),
        dict(id='c18_views', check='c18_views', range=(1900, 2155), chunks=32, domain='60 consecutive days x 24 hours in each of 256 years (every day pillar, every hour incl. 23:00)', clause='day and hour views (lunar and sexagenary) return exactly the table entries of their pillar pair; hour lists stay disjoint at 23:00'),
    ],
}

REG['C20'] = {
    'level': 'other',
    'design_ref': '5/C20',
    'technique': 'Verus on SolarFestival::next / LunarFestival::next (real bodies, lookup uninterpreted) + exhaustive / bounded execution of festival and holiday lookup contracts in both directions over the stated ranges (the lookups are regex-based code)',
    'level_text': 'Deductive part (Verus, real bodies, every n): stepping a civil / lunar festival by n looks up position year*len + index + n, i.e. (floor(p/len), p mod len) with len the real list length (10 / 13), through the real AbstractCulture::index_of; the lookup by (year, index) itself goes through regex over string tables and is uninterpreted there. Bounded part (execution): every civil date 1900..2100 and every (year 1..9998, index) for civil festivals; lunar festivals by index fall on a day whose own lookup returns them (or the earlier-listed one), fixed dates, term days, New Year eve = last day (29/30) of the lunar year; every lunar date 1900..2100; all holiday records 2000..2030: real dates, returned for that date only, stepping visits them in strictly increasing order and next(k) lands k places on.',
    'level_note': 'lookups go through regex over string tables (L-RX): execution only; known findings: New Year eve / Laba in the reform-year windows (consequence of C03)',
    'explanation': 'bounded / exhaustive execution of the lookup contracts over the ranges stated in the property',
    'functions': ['SolarFestival::next', 'LunarFestival::next', 'AbstractCulture::index_of', 'SolarFestival::from_ymd / from_index (leaf)', 'LunarFestival::from_ymd / from_index (leaf)', 'LegalHoliday::from_ymd / next (leaf)'],
    'V': [
        dict(id='c20_festival_step', template='verus/c20_festival_step.rs', twin_quick=True,
             twin=[('p >= 0 ==> r == solar_lookup(p / 10, p % 10) }),', 'p >= 0 ==> r == solar_lookup(p / 10 + 1, p % 10) }),')],
             clause='festival stepping looks up (floor((year*len+index+n)/len), (..) mod len) for every n',
             paired_leaf=[dict(id='c20_search', check='c20_festivals', range=(1, 9998), chunks=32)]),
    ],
    'L': [
        dict(id='c20_festivals', check='c20_festivals', range=(1, 9998), chunks=64, domain='civil dates 1900..2100, (year 1..9998, index), lunar dates 1900..2100, stepping samples', clause='festival lookups consistent in both directions; stepping n places along the list'),
        dict(id='c20_holidays', check='c20_holidays', range=(0, 15), chunks=16, exhaustive=True, domain='every civil date 2000..2030; every record x step counts +-1..60, +-100, +-200', clause='holiday table: real dates, membership, strictly increasing stepping'),
    ],
}

REG['C10'] = {
    'level': 'other',
    'design_ref': '5/C10',
    'technique': 'Kani on the cache codec (encode/from_cache round trip, bit-precise) + source scan for the single critical section + execution of collision families, long histories, 16-thread overlap and refusal injection in fresh processes',
    'level_text': 'Partial. Deductive: from_cache(encode(m)) == m for every in-range field tuple (Kani, f64<->int casts bit-precise). Structural (mechanical scan each run): LUNAR_MONTH_CACHE is referenced only inside LunarMonth::from_ym, the key is format!("{}_{}", year, month) (injective on integers by the delimiter), and no fallible call sits between a lock() and the end of its guard scope. Bounded (execution, each leaf process is a fresh process): all digit-collision request families in both orders, random long histories vs the cache-free constructor, per-value memos after clone/step, 16 threads issuing overlapping queries, 18 kinds of refused request at 3 positions followed by valid requests.',
    'level_note': 'thread interleavings are those the OS produces in the run, not all schedules (no verifier here handles threads: Kani has none, Verus would need its permission types on code it cannot reach); mutual exclusion of std::sync::Mutex and HashMap get/insert semantics are assumed',
    'explanation': 'codec proved; schedules and histories bounded by execution; see DESIGN 5/C10',
    'functions': ['LunarMonth::from_ym', 'LunarMonth::from_cache', 'LunarDay::get_solar_day / get_sixty_cycle_day (memo)', 'LunarHour::get_solar_time / get_sixty_cycle_hour (memo)', 'LunarHour::next / LunarDay::next'],
    'K': [
        dict(id='c10_k_cache_codec', fn='LunarMonth::from_cache', clause='from_cache([year, month_with_leap, day_count, index, first]) rebuilds exactly those fields for every in-range tuple'),
    ],
    'S': ['cache_scan'],
    'L': [
        dict(id='c10_history', check='c10_history', range=(1, 999), chunks=32, domain='all digit-collision pairs of years 1..999 in both orders + 40k random requests + memo histories', clause='answer == cache-free constructor, independent of history'),
        dict(id='c10_threads', check='c10_threads', range=(300, 700), chunks=4, domain='4 processes x 16 threads x 8000 overlapping requests', clause='same answers under concurrency'),
        dict(id='c10_refusals', check='c10_refusals', range=(0, 20), chunks=21, exhaustive=True, domain='21 kinds of refused request (incl. failures inside the strategy-object critical sections) x 3 history positions, one fresh process each', clause='a refused request never changes, blocks or breaks a later valid request'),
    ],
}

REG['C04'] = {
    'level': 'other',
    'design_ref': '5/C04',
    'technique': 'the no-major-term rule as an executable checker, Verus-verified against its mathematical statement, run over the library\'s own new-moon and term days for every lunar year outside the reform periods',
    'level_text': 'Bounded only (exhaustive execution, not a proof about the code): for every lunar year 27..9998 except 237..240 the lunation containing the winter solstice is month 11, with 13 lunations between solstice months the first one without a major term is the leap month, and every month the rule demands exists in the library with exactly that first day (so the packed leap table and the month offsets agree with the astronomy).',
    'level_note': 'both sides are f64 series evaluations (calc_shuo / calc_qi): no verifier here can evaluate them; the checker is Verus-verified (spec/leaprule.rs); only the oracle is proved, the code under test is executed',
    'explanation': 'exhaustive execution of the rule over 9,968 lunar years',
    'functions': ['spec::leap_position / last_lunation / has_zq (verified oracle)', 'LunarYear::get_leap_month (leaf)', 'LunarMonth::new (leaf)', 'ShouXingUtil::calc_shuo / calc_qi (leaf)'],
    'V': [
        dict(id='c04_leap_rule', template='verus/c04_leap_rule.rs', twin_quick=True,
             twin=[('ensures m_is_leap_pos(nm@, zq@, last as int, r as int),', 'ensures m_is_leap_pos(nm@, zq@, last as int, r as int + 1),')],
             clause='the executable rule checker equals the mathematical no-major-term rule (oracle verified; the relation table <=> astronomy itself is executed, not proved)'),
    ],
    'L': [
        dict(id='c04_leap_rule', check='c04_leap_rule', range=(27, 9998), chunks=64, exhaustive=True, domain='every lunar year 27..9998 except 237..240', clause='month numbering and leap month == no-major-term rule on the library\'s own days'),
        dict(id='L-NEW', check='l_new', range=(0, 9999), chunks=32, exhaustive=True, domain='every lunation', clause='months tile (so the rule\'s lunations are the library\'s months)'),
    ],
}
