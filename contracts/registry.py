"""Obligation registry: for every claimed property, the K (Kani), V (Verus) and L (leaf) obligations.

K ids are harness names in kani/k_*.rs (sliced ones: the //@SLICES prefix).
V ids are templates under verus/.  L ids are checks of the leaf runner.
"""

REG = {}

REG['C01'] = {
    'level': 'proof',
    'design_ref': '5/C01',
    'technique': 'Kani function contracts + full-domain symbolic harnesses on the real jd.rs/solar.rs functions (f64 bit-precise), Verus lemmas over the spec calendar',
    'level_text': 'Every clause is a K or V obligation over the whole input domain: date->day-number against a first-principles calendar spec (all y,m,d), acceptance == existence, the inverse conversion for every day number (quick: stated subset of 100 year-slices, thorough: complete partition + the contract form), subtract/next/order/lengths; Verus lemmas give +1 per civil day incl. the 1582 cut-over, bijection onto 3,652,061 day numbers, order <=> day-number order. No leaf contracts.',
    'level_note': 'trusted: Kani/CBMC (incl. IEEE-754 model), Verus/Z3, rustc; alloc::fmt::format stubbed (message text only); stub_verified callers see only the separately proved conversion contracts; quick tier proves the inverse conversion on a boundary + seed-rotated subset of slices and says which (full partition in thorough)',
    'functions': [
        'JulianDay::from_ymd_hms', 'JulianDay::get_solar_time', 'JulianDay::get_solar_day', 'JulianDay::next',
        'SolarDay::new', 'SolarDay::from_ymd', 'SolarDay::get_julian_day', 'SolarDay::subtract', 'SolarDay::next',
        'SolarDay::is_before', 'SolarDay::is_after', 'SolarDay::get_index_in_year',
        'SolarMonth::new', 'SolarMonth::get_day_count', 'SolarYear::new', 'SolarYear::get_day_count', 'SolarYear::is_leap',
    ],
    'K': [
        dict(id='c01_k1_ymd2jd', paired_leaf=dict(check='c01_calendar_years', range=(1, 9999), chunks=32), sliced=True, quick='all', fn='JulianDay::from_ymd_hms',
             clause='contract: from_ymd_hms(y,m,d,0,0,0).day == jdn(y,m,d) - 0.5 for all 0<=y<=10000, 1<=m<=12, 1<=d<=31'),
        dict(id='c01_k3q_jd2ymd', paired_leaf=dict(check='c01_calendar_years', range=(1, 9999), chunks=32), sliced=True, quick=dict(boundary=[0, 'v:1582', 'v:1900', -1], sample=12), fn='JulianDay::get_solar_time',
             clause='for every valid date d: get_solar_time(jdn(d) - 0.5) == d at 00:00:00 (with V2 surjectivity: the inverse conversion for every day number in range)'),
        dict(id='c01_k3_jd2ymd', paired_leaf=dict(check='c01_calendar_years', range=(1, 9999), chunks=32), sliced=True, thorough_only=True, fn='JulianDay::get_solar_time',
             clause='contract: for every integer day number n of 0001-01-01..9999-12-31, get_solar_time(n-0.5) is a valid date at 00:00:00 with jdn == n'),
        dict(id='c01_k2_day_accept', paired_leaf=dict(check='c01_calendar_years', range=(1, 9999), chunks=32), fn='SolarDay::new', clause='SolarDay::new(y,m,d).is_ok() == valid_date(y,m,d) for all y in 1..9999, m in 1..12, every usize d'),
        dict(id='c01_k2_month_year_refuse', fn='SolarMonth::new / SolarYear::new', clause='months outside 1..12 and years outside 1..9999 are refused (Err)'),
        dict(id='c01_k2_bad_month_year_panics', expect='panic_all', fn='SolarDay::new', clause='SolarDay::new refuses (panics) for every (y,m) outside 1..9999 x 1..12'),
        dict(id='c01_k4_subtract', paired_leaf=dict(check='c01_calendar_years', range=(1, 9999), chunks=32), fn='SolarDay::subtract', clause='a.subtract(b) == jdn(a) - jdn(b) for all pairs of valid dates (stub_verified from_ymd_hms)'),
        dict(id='c01_k5_next', paired_leaf=dict(check='c01_calendar_years', range=(1, 9999), chunks=32), thorough_only=True, fn='SolarDay::next', clause='jdn(a.next(n)) == jdn(a) + n and the result is valid, for all a, n with the result in range (both conversion contracts)'),
        dict(id='c01_k3_roundtrip_by_contract', paired_leaf=dict(check='c01_calendar_years', range=(1, 9999), chunks=32), thorough_only=True, fn='SolarDay::get_julian_day / JulianDay::get_solar_day', clause='date -> day count -> date keeps the day number and validity'),
        dict(id='c01_k6_order', fn='SolarDay::is_before / is_after / eq', clause='strict lexicographic order on (y,m,d)'),
        dict(id='c01_k7_lengths', paired_leaf=dict(check='c01_calendar_years', range=(1, 9999), chunks=32), fn='SolarMonth::get_day_count, SolarYear::get_day_count / is_leap', clause='== month_len / year_len / is_leap_civil of the calendar spec'),
        dict(id='c01_k7_day_of_year', paired_leaf=dict(check='c01_calendar_years', range=(1, 9999), chunks=32), thorough_only=True, fn='SolarDay::get_index_in_year', clause='== jdn(date) - jdn(y,1,1)'),
    ],
    'V': [
        dict(id='c01_v_calendar', template='verus/c01_calendar.rs',
             clause='spec library exec == math; successor lemma (+1 per civil day incl. 1582 cut-over); jdn strictly monotone in lexicographic order => injective; year/month lengths == jdn differences; count of valid dates == 3652061'),
    ],
    'L': [],
    'trusted': ['kani::stub_verified replaces JulianDay::from_ymd_hms / get_solar_time by their (separately proved) contracts in the caller harnesses'],
}


REG['C03'] = {
    'level': 'proof',
    'design_ref': '5/C03',
    'technique': 'Verus on LunarMonth::next / LunarYear::get_months extracted verbatim (uninterpreted leap table) + leaf contract of LunarMonth::new executed over all lunations',
    'level_text': 'Deductive part (proof, all inputs, any leap table): month stepping moves the absolute month ordinal by exactly n for every n and every assignment of leap months, the decoded month/leap flag is the one at that position (leap month directly after its twin), from_ym is never refused, next(n).next(-n) is the identity, a year lists exactly its 12/13 months in order. Leaf part (bounded, exhaustive execution, NOT proof): LunarMonth::new over all 123,684 lunations of years 0..9999 - 29/30 days, abutting months incl. year ends, 353-355/383-385 days, month/day counts == new-year distance.',
    'level_note': 'assumed (class L, checked by exhaustive execution each run): contract of LunarMonth::new / LunarYear::get_leap_month (astronomy + packed table); LunarMonth::from_ym == new (cache wrapper, see C10); Verus/Z3 trusted; extraction drops pub/docs and maps format! to an opaque message',
    'functions': ['LunarMonth::next', 'LunarMonth::get_month_with_leap', 'LunarMonth::get_year', 'LunarYear::new', 'LunarYear::from_year', 'LunarYear::next', 'LunarYear::get_year', 'LunarYear::get_month_count', 'LunarYear::get_months', 'LunarMonth::new (leaf)', 'LunarYear::get_leap_month (leaf)'],
    'V': [
        dict(id='c03_month_step', template='verus/c03_month_step.rs', twin_quick=True,
             twin=[('r.ord() == self.ord() + n,', 'r.ord() == self.ord() + n + 1,')],
             clause='LunarMonth::next moves the month ordinal by exactly n (any leap table); get_months lists ordinals mb(y)..mb(y)+msize(y)-1; from_ym never refused',
             paired_leaf=[dict(id='c03_step_search', check='c03_month_step', range=(0, 9999), chunks=32)]),
    ],
    'L': [
        dict(id='L-NEW', check='l_new', range=(0, 9999), chunks=32, exhaustive=True, domain='every lunation of lunar years 0..9999 + refused month numbers',
             clause='LunarMonth::new: Ok <=> valid month; index sequential; 29/30 days; first(next) == first + count incl. year ends; year 353-355/383-385 days'),
        dict(id='c03_month_step', check='c03_month_step', range=(0, 9999), chunks=32, exhaustive=False, domain='every month of years 0..9999 x steps {-40..40, +-100, +-1237}',
             clause='next(n) lands on the month n places later in the month list; next(n).next(-n) == self; year listing == stepping'),
    ],
}

REG['C06'] = {
    'level': 'proof',
    'design_ref': '5/C06',
    'technique': 'Verus on SolarDay::get_term_day / SolarTime::get_term extracted verbatim (uninterpreted monotone term table) + Kani on the term index/year carry + leaf contracts L-TD/L-TI executed over all terms',
    'level_text': 'Deductive part: both searches return the unique term k with T(k) <= x < T(k+1) and day index x - TD(k), for every date/instant and ANY strictly increasing term table (Verus, real loops incl. the forward walk); SolarTerm::from_index/next year-index carry for every (year, index) with astronomy stubbed out (Kani). Leaf part (bounded, exhaustive execution): the 239,976 term days/instants of years 1..9999 are strictly increasing, 14-16 days / 14.6-15.8 d apart, day == civil day of the instant; plus the composite day->term over every civil date and instant->term around every term instant.',
    'level_note': 'assumed (class L): term day / instant functions (ShouXing series) satisfy L-TD/L-TI - checked by exhaustive execution, not proved; SolarDay::is_before/subtract contracts are proved in C01; SolarTime::is_before in C12; Verus extraction as in DESIGN 2.4',
    'functions': ['SolarDay::get_term_day', 'SolarTime::get_term', 'SolarTerm::from_index', 'SolarTerm::next', 'SolarTerm::is_jie/is_qi', 'SolarTerm::get_julian_day (leaf)', 'ShouXingUtil::calc_qi / qi_accurate2 (leaf)'],
    'K': [
        dict(id='c06_k_from_index', fn='SolarTerm::from_index', clause='year == floor((24*year+index)/24), index == (24*year+index) mod 24 for 0<=year<=10000, |index|<=100000, total >= 0; independent of the astronomy (calc_qi stubbed by a nondeterministic f64)'),
        dict(id='c06_k_next', fn='SolarTerm::next', clause='next(n) has absolute number k+n (calc_qi stubbed)'),
        dict(id='c06_k_parity', fn='SolarTerm::is_jie / is_qi', clause='is_jie <=> odd index, is_qi <=> even index, for all 24 indices'),
    ],
    'V': [
        dict(id='c06_term_search', template='verus/c06_term_search.rs', twin_quick=True,
             twin=[('r.term_k() < K_MAX ==> self.jdn() < TD(r.term_k() + 1),', 'r.term_k() < K_MAX ==> self.jdn() < TD(r.term_k()),')],
             clause='get_term_day / get_term return the unique interval [T(k), T(k+1)) containing the date / instant; day index == jdn - TD(k)',
             paired_leaf=[dict(id='c06_search', check='c06_day_term', range=(1, 9999), chunks=32), dict(id='c06_search_t', check='c06_time_term', range=(1, 9998), chunks=32)]),
    ],
    'L': [
        dict(id='L-TD/L-TI', check='l_td', range=(1, 9999), chunks=32, exhaustive=True, domain='all terms k=25..239999', clause='term days strictly increasing 14..16 apart, instants 14.6..15.8 d apart, day == civil day of instant (to the second)'),
        dict(id='c06_day_term', check='c06_day_term', range=(1, 9999), chunks=64, exhaustive=True, domain='every civil date 0001-01-06..9999-12-31', clause='get_term_day == latest term on or before, index == days since'),
        dict(id='c06_time_term', check='c06_time_term', range=(1, 9998), chunks=64, domain='every term x {instant, -1s, +1s, random, last second}', clause='get_term == latest term starting on or before the instant'),
        dict(id='c06_term_step', check='c06_term_step', range=(1, 9998), chunks=64, domain='every term x 14 step counts', clause='stepping == constructing (year carry both directions)'),
    ],
}

REG['C02'] = {
    'level': 'proof',
    'design_ref': '5/C02',
    'technique': 'Verus on SolarDay::get_lunar_day extracted verbatim (uninterpreted tiling month table) + bijection/order lemmas + exhaustive execution of both conversions over every date',
    'level_text': 'Deductive part: get_lunar_day returns the month o and day d with FIRST(o)+d-1 == day number and 1<=d<=CNT(o), never refused, for ANY month table that tiles (real loops incl. forward walk); lemmas: tiling => disjoint month intervals => both round trips are identities, consecutive days map to day+1 or day 1 of the next month, (month position, day) order <=> chronological order. Leaf part (bounded, exhaustive execution): every civil date 0001..9999 and every lunar day of years 0..9999 through both conversions, acceptance of day 0 / count+1, before/after over all neighbouring-month pairs incl. leap twins.',
    'level_note': 'assumed (class L): L-NEW tiling (false at four reform-year boundaries = known findings, excluded from the Verus precondition `tiles`), LunarMonth::next contract proved in C03, SolarDay::subtract in C01; LunarDay::new/get_solar_day use RefCell/f64 and are covered by the exhaustive leaf run only',
    'functions': ['SolarDay::get_lunar_day', 'LunarDay::new (leaf)', 'LunarDay::get_solar_day (leaf)', 'LunarDay::is_before/is_after (leaf)', 'LunarDay::next (leaf)'],
    'V': [
        dict(id='c02_lunar_conv', template='verus/c02_lunar_conv.rs', twin_quick=True,
             twin=[('FIRST(r.month_ord()) + r.day() - 1 == self.jdn(),', 'FIRST(r.month_ord()) + r.day() == self.jdn(),')],
             clause='get_lunar_day: FIRST(month)+day-1 == jdn, 1<=day<=CNT; from_ymd never refused; bijection / consecutive / order lemmas',
             paired_leaf=[dict(id='c02_search', check='c02_solar_side', range=(1, 9999), chunks=32)]),
    ],
    'L': [
        dict(id='c02_solar_side', check='c02_solar_side', range=(1, 9999), chunks=64, exhaustive=True, domain='every civil date 0001-01-01..9999-12-31', clause='civil -> lunar -> civil identity; consecutive days'),
        dict(id='c02_lunar_side', check='c02_lunar_side', range=(0, 9999), chunks=64, exhaustive=True, domain='every lunar day of lunar years 0..9999 + day 0 / count+1; order over 3-month windows', clause='lunar -> civil -> lunar identity; acceptance; before/after == chronological'),
    ],
}
