// Kani harness module woven (cfg(kani)) as `mod verif_k` at the end of src/tyme/mod.rs.
#![allow(dead_code, unused_imports)]
use super::*;
#[path = "@SPEC@"]
pub mod spec;
pub fn stub_format(_a: core::fmt::Arguments<'_>) -> String { String::new() }

// C11: AbstractCulture::index_of with a SYMBOLIC table size is a Verus obligation (verus/c11_index_of.rs); the Kani form
// (64/128-bit division by a symbolic size) did not finish in 10 min. Per concrete table size it is part of every
// generated cycle harness (c11_cycle_*).

// C15: LoopTyme::steps_to on the real body, for the two table sizes it is used with (10 stems, 12 branches): the number of
// forward steps from the current index to the target index, (target - index) mod size.
fn empties(n: usize) -> Vec<String> { let mut v: Vec<String> = Vec::with_capacity(n); let mut i = 0; while i < n { v.push(String::new()); i += 1; } v }
macro_rules! steps_to_harness { ($name:ident, $n:expr) => {
  #[kani::proof]
  #[kani::unwind(13)]
  #[kani::stub(alloc::fmt::format, stub_format)]
  fn $name() {
    let n: usize = $n;
    let i: isize = kani::any(); let t: isize = kani::any();
    kani::assume(i >= 0 && (i as usize) < n && t > -(1isize << 31) && t < (1isize << 31));
    let l = LoopTyme::from_index(empties(n), i);
    assert!(l.get_index() == i as usize && l.get_size() == n, "index and size as constructed");
    let r = l.steps_to(t);
    assert!(r as i64 == spec::emod(t as i64 - i as i64, n as i64) && r < n, "steps_to == (target - index) mod size");
    kani::cover!(t == 7 && i == 8, "steps_to reachable");
  }
} }
steps_to_harness!(c15_k_steps_to_10, 10);
steps_to_harness!(c15_k_steps_to_12, 12);

// C11: the assumed Verus specification of isize::div_euclid (verus/c11_month_next.rs) for the divisor used by
// SixtyCycleMonth::next: Euclidean division by 12 is floor division, remainder in 0..12.
#[kani::proof]
#[kani::stub(alloc::fmt::format, stub_format)]
fn c11_k_div_euclid_12() {
  let a: isize = kani::any();
  kani::assume(a > -(1isize << 46) && a < (1isize << 46));
  let q = a.div_euclid(12);
  let r = a - 12 * q;
  assert!(r >= 0 && r < 12 && q as i64 == spec::ediv(a as i64, 12), "div_euclid(12) == floor(a / 12)");
  kani::cover!(a == -1 && q == -1, "div_euclid reachable (negative numerator)");
}
