// Kani harness module woven (cfg(kani)) as `mod verif_k` at the end of src/tyme/mod.rs.
#![allow(dead_code, unused_imports)]
use super::*;
#[path = "@SPEC@"]
pub mod spec;
pub fn stub_format(_a: core::fmt::Arguments<'_>) -> String { String::new() }

// C11: AbstractCulture::index_of with a SYMBOLIC table size is a Verus obligation (verus/c11_index_of.rs); the Kani form
// (64/128-bit division by a symbolic size) did not finish in 10 min. Per concrete table size it is part of every
// generated cycle harness (c11_cycle_*).
