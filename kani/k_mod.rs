// Kani harness module woven (cfg(kani)) as `mod verif_k` at the end of src/tyme/mod.rs.
#![allow(dead_code, unused_imports)]
use super::*;
#[path = "@SPEC@"]
pub mod spec;
pub fn stub_format(_a: core::fmt::Arguments<'_>) -> String { String::new() }

// C11: the modular index helper is the Euclidean remainder for every isize index and every table size 1..=256
#[kani::proof]
#[kani::stub(alloc::fmt::format, stub_format)]
fn c11_k_index_of() {
  let index: isize = kani::any();
  let size: usize = kani::any();
  kani::assume(size >= 1 && size <= 256);
  let r = AbstractCulture::new().index_of(index, size);
  assert!(r < size, "result is an index of the table");
  // (index - r) is a multiple of size: checked without a second division
  let q = (index as i128 - r as i128) / (size as i128);
  assert!(q * (size as i128) == index as i128 - r as i128, "index == q*size + r");
  kani::cover!(index == isize::MIN && size == 7, "index_of reachable (isize::MIN)");
}
