// Kani harness module woven (cfg(kani)) as `mod verif_k` at the end of src/tyme/sixtycycle.rs.
#![allow(dead_code, unused_imports)]
use super::*;
use crate::tyme::{Culture, Tyme};
#[path = "@SPEC@"]
pub mod spec;
pub fn stub_format(_a: core::fmt::Arguments<'_>) -> String { String::new() }
//@CYCLES

// cheap stand-ins + recorders used by harnesses in other modules (C07): the objects are built over a one-name table so
// that no 10/12/60-entry name table is constructed; the recorded argument is what the harness asserts on
pub static mut REC_STEM: isize = isize::MIN;
pub static mut REC_BRANCH: isize = isize::MIN;
fn one_name() -> Vec<String> { let mut v: Vec<String> = Vec::new(); v.push(String::new()); v }
pub fn rec_stem_from_index(i: isize) -> HeavenStem { unsafe { REC_STEM = i; } HeavenStem { parent: LoopTyme::from_index(one_name(), 0) } }
pub fn rec_branch_from_index(i: isize) -> EarthBranch { unsafe { REC_BRANCH = i; } EarthBranch { parent: LoopTyme::from_index(one_name(), 0) } }
pub fn const_cycle_from_name(_n: &str) -> SixtyCycle { SixtyCycle { parent: LoopTyme::from_index(one_name(), 0) } }

// index-faithful cheap constructors: the same LoopTyme arithmetic (index_of, next_index, size) over a table of EMPTY names.
// Sound for functions that only do index arithmetic on these values (names are read only by format!, which is stubbed,
// and by the name lookup from_name, which is stubbed by a constant and decomposed as described in DESIGN 2.3);
// NOT used for functions that compare values with == (name-based equality).
fn empties(n: usize) -> Vec<String> { let mut v: Vec<String> = Vec::with_capacity(n); let mut i = 0; while i < n { v.push(String::new()); i += 1; } v }
pub fn cheap_cycle(i: isize) -> SixtyCycle { SixtyCycle { parent: LoopTyme::from_index(empties(60), i) } }
pub fn faithful_cycle_from_index(i: isize) -> SixtyCycle { cheap_cycle(i) }
pub fn faithful_stem_from_index(i: isize) -> HeavenStem { unsafe { REC_STEM = i; } HeavenStem { parent: LoopTyme::from_index(empties(10), i) } }
pub fn faithful_branch_from_index(i: isize) -> EarthBranch { unsafe { REC_BRANCH = i; } EarthBranch { parent: LoopTyme::from_index(empties(12), i) } }

fn yy(h: &HeavenStem) -> i64 { if h.get_yin_yang() == YinYang::YANG { 0 } else { 1 } }

// ---- C19: stem / branch attributes against the first-principles rules; one getter per harness (each getter
// builds a name table, several per harness exceed the solver budget), index symbolic over its whole domain
macro_rules! stem_attr { ($name:ident, $get:expr, $want:expr, $msg:expr) => {
  #[kani::proof]
  #[kani::stub(alloc::fmt::format, stub_format)]
  fn $name() {
    let s: isize = kani::any();
    kani::assume(s >= 0 && s < 10);
    let h = HeavenStem::from_index(s);
    let got: i64 = ($get)(&h);
    assert!(got == ($want)(s as i64), $msg);
    kani::cover!(s == 9, "reachable");
  }
} }
stem_attr!(c19_k_stem_element, |h: &HeavenStem| h.get_element().get_index() as i64, |s| spec::stem_element(s), "stem element");
// (stem polarity: string-based enum equality, times out; enumerated by c19_attributes)
stem_attr!(c19_k_stem_direction, |h: &HeavenStem| h.get_direction().get_index() as i64, |s| spec::element_direction(spec::stem_element(s)), "stem direction");
stem_attr!(c19_k_stem_joy, |h: &HeavenStem| h.get_joy_direction().get_index() as i64, |s| spec::joy_direction(s), "joy direction rhyme");
stem_attr!(c19_k_stem_yang_noble, |h: &HeavenStem| h.get_yang_direction().get_index() as i64, |s| spec::noble_direction(s, true), "yang noble rhyme");
stem_attr!(c19_k_stem_yin_noble, |h: &HeavenStem| h.get_yin_direction().get_index() as i64, |s| spec::noble_direction(s, false), "yin noble rhyme");
stem_attr!(c19_k_stem_wealth, |h: &HeavenStem| h.get_wealth_direction().get_index() as i64, |s| spec::wealth_direction(s), "wealth rhyme");
stem_attr!(c19_k_stem_mascot, |h: &HeavenStem| h.get_mascot_direction().get_index() as i64, |s| spec::mascot_direction(s), "fortune rhyme");

#[kani::proof]
#[kani::stub(alloc::fmt::format, stub_format)]
fn c19_k_ten_star() {
  let s: isize = kani::any(); let t: isize = kani::any();
  kani::assume(s >= 0 && s < 10 && t >= 0 && t < 10);
  let r = HeavenStem::from_index(s).get_ten_star(HeavenStem::from_index(t));
  assert!(r.get_index() as i64 == spec::ten_star(s as i64, t as i64), "ten-star == relation of elements x polarity");
  kani::cover!(s == 9 && t == 0, "ten_star reachable");
}

// (growth stages 10 x 12: the Kani harness times out even per stem - get_terrain compares YinYang values through their
//  names; decided by the complete enumeration c19_attributes.)

macro_rules! branch_attr { ($name:ident, $get:expr, $want:expr, $msg:expr) => {
  #[kani::proof]
  #[kani::stub(alloc::fmt::format, stub_format)]
  fn $name() {
    let b: isize = kani::any();
    kani::assume(b >= 0 && b < 12);
    let e = EarthBranch::from_index(b);
    let got: i64 = ($get)(&e);
    assert!(got == ($want)(b as i64), $msg);
    kani::cover!(b == 11, "reachable");
  }
} }
branch_attr!(c19_k_branch_element, |e: &EarthBranch| e.get_element().get_index() as i64, |b| spec::branch_element(b), "branch element");
branch_attr!(c19_k_branch_direction, |e: &EarthBranch| e.get_direction().get_index() as i64, |b| spec::element_direction(spec::branch_element(b)), "branch direction");
branch_attr!(c19_k_branch_zodiac, |e: &EarthBranch| e.get_zodiac().get_index() as i64, |b| b, "zodiac animal");
branch_attr!(c19_k_branch_ominous, |e: &EarthBranch| e.get_ominous().get_index() as i64, |b| spec::ominous_direction(b), "ominous direction");
branch_attr!(c19_k_branch_hide_main, |e: &EarthBranch| e.get_hide_heaven_stem_main().get_index() as i64, |b| spec::hidden_stems(b).0, "hidden stem (main)");
// (hidden middle / residual stems: Option-valued getters, time out; enumerated by c19_attributes)
branch_attr!(c19_k_branch_clash, |e: &EarthBranch| e.get_opposite().get_index() as i64, |b| spec::clash(b), "clash");
branch_attr!(c19_k_branch_combine, |e: &EarthBranch| e.get_combine().get_index() as i64, |b| spec::six_combine(b).0, "six-combination partner");
branch_attr!(c19_k_branch_harm, |e: &EarthBranch| e.get_harm().get_index() as i64, |b| spec::harm(b), "harm partner");

#[kani::proof]
#[kani::stub(alloc::fmt::format, stub_format)]
fn c19_k_stem_combine() {
  let s: isize = kani::any();
  kani::assume(s >= 0 && s < 10);
  let h = HeavenStem::from_index(s);
  assert!(h.get_combine().get_index() as i64 == spec::stem_combine_partner(s as i64), "five-combination partner");
  kani::cover!(s == 9, "stem_combine reachable");
}


// ---- C08: first month of a sexagenary year (Five Tigers): the stem index fed to the "X寅" name lookup ------------
#[kani::proof]
#[kani::unwind(61)]
#[kani::stub(alloc::fmt::format, stub_format)]
#[kani::stub(SixtyCycle::from_index, faithful_cycle_from_index)]
#[kani::stub(HeavenStem::from_index, faithful_stem_from_index)]
#[kani::stub(SixtyCycle::from_name, const_cycle_from_name)]
fn c08_k_first_month_args() {
  let y: isize = kani::any();
  kani::assume(y >= -1 && y <= 9999);
  let _ = SixtyCycleYear { year: y }.get_first_month();
  let ys = spec::emod(y as i64 - 4, 60) % 10;
  assert!(spec::emod(unsafe { REC_STEM } as i64, 10) == spec::five_tigers(ys), "the Yin month of the year takes its stem by the Five-Tigers rule");
  kani::cover!(y == 2024, "first_month reachable");
}

// ---- C17: day officer and twelve spirits of a sexagenary day: index arithmetic on (day branch, month branch) -------
fn any_sixty_cycle_day() -> (SixtyCycleDay, i64, i64) {
  let dp: isize = kani::any(); let mp: isize = kani::any(); let y: isize = kani::any();
  kani::assume(dp >= 0 && dp < 60 && mp >= 0 && mp < 60 && y >= 1 && y <= 9999);
  let sd = SolarDay::from_ymd(2000, 1, 1);
  (SixtyCycleDay { solar_day: sd, month: SixtyCycleMonth { year: SixtyCycleYear { year: y }, month: cheap_cycle(mp) }, day: cheap_cycle(dp) }, dp as i64, mp as i64)
}
#[kani::proof]
#[kani::unwind(61)]
#[kani::stub(alloc::fmt::format, stub_format)]
#[kani::stub(EarthBranch::from_index, faithful_branch_from_index)]
fn c17_k_duty() {
  let (d, dp, mp) = any_sixty_cycle_day();
  let (db, mb) = (dp % 12, mp % 12);
  let r = d.get_duty().get_index() as i64;
  assert!(r == spec::emod(db - mb, 12), "day officer == (day branch - month branch) mod 12");
  assert!((r == 0) == (db == mb), "Jian exactly when the day branch equals the month branch");
  kani::cover!(db == 0 && mb == 11, "duty reachable");
}
#[kani::proof]
#[kani::unwind(61)]
#[kani::stub(alloc::fmt::format, stub_format)]
#[kani::stub(EarthBranch::from_index, faithful_branch_from_index)]
fn c17_k_twelve_star() {
  let (d, dp, mp) = any_sixty_cycle_day();
  let (db, mb) = (dp % 12, mp % 12);
  // Azure Dragon starts at 子 in 寅申 months, 寅 in 卯酉, 辰 in 辰戌, 午 in 巳亥, 申 in 子午, 戌 in 丑未 months
  let start = match mb { 2 | 8 => 0, 3 | 9 => 2, 4 | 10 => 4, 5 | 11 => 6, 0 | 6 => 8, _ => 10 };
  assert!(d.get_twelve_star().get_index() as i64 == spec::emod(db - start, 12), "twelve spirits start at the branch fixed by the month branch and advance with the day branch");
  kani::cover!(db == 0 && mb == 11, "twelve_star reachable");
}

// (28 mansions: the Kani harness over (weekday, pillar) pairs took 580 s and ended in spurious dealloc checks of the
//  28-name tables; luminary == weekday and +1 per day are checked by execution for every date, c17_day_series.)

// ---- C08 / C11: SixtyCycleMonth::next: 12*year + index moves by exactly n; the pillar moves by n --------------------------
#[kani::proof]
#[kani::unwind(61)]
#[kani::stub(alloc::fmt::format, stub_format)]
#[kani::stub(SixtyCycle::from_index, faithful_cycle_from_index)]
#[kani::stub(EarthBranch::from_index, faithful_branch_from_index)]
fn c08_k_month_next() {
  let y: isize = kani::any(); let mp: isize = kani::any(); let n: isize = kani::any();
  kani::assume(y >= 0 && y <= 9999 && mp >= 0 && mp < 60 && n >= -300 && n <= 300);   // |n| <= 300: 64-bit div/mod circuits time out for wider n
  let m = SixtyCycleMonth { year: SixtyCycleYear { year: y }, month: cheap_cycle(mp) };
  let idx = spec::emod(mp as i64 % 12 - 2, 12);                       // position in the year: Yin month = 0
  let t = (y as i64) * 12 + idx + n as i64;
  kani::assume(t >= 0 && t <= 9999 * 12 + 11);
  let r = m.next(n);
  assert!(m.get_index_in_year() as i64 == idx, "index in year counts from the Yin month");
  assert!((r.get_sixty_cycle_year().get_year() as i64) * 12 + r.get_index_in_year() as i64 == t, "12*year + index moves by exactly n");
  assert!(r.get_sixty_cycle().get_index() as i64 == spec::emod(mp as i64 + n as i64, 60), "the month pillar moves by n");
  kani::cover!(n == -1 && idx == 0, "month_next reachable (backward across Lichun)");
}

// ---- C17: flying nine stars of year and month, hour twelve spirits (index arithmetic; cheap constructors) ---------------
#[kani::proof]
#[kani::unwind(61)]
#[kani::stub(alloc::fmt::format, stub_format)]
#[kani::stub(SixtyCycle::from_index, faithful_cycle_from_index)]
fn c17_k_year_nine_star() {
  let y: isize = kani::any();
  kani::assume(y >= -1 && y <= 9999);
  // 1864 (first year of an Upper Era, Jiazi) is One White; the star descends by one per year
  let want = spec::emod(0 - (y as i64 - 1864), 9);
  assert!(SixtyCycleYear { year: y }.get_nine_star().get_index() as i64 == want, "year star descends one per year from 1864 = One White");
  assert!(LunarYear::from_year(y).get_nine_star().get_index() as i64 == want, "the lunar-year view agrees");
  kani::cover!(y == -1, "year_nine_star reachable");
}

#[kani::proof]
#[kani::unwind(61)]
#[kani::stub(alloc::fmt::format, stub_format)]
#[kani::stub(SixtyCycle::from_index, faithful_cycle_from_index)]
#[kani::stub(EarthBranch::from_index, faithful_branch_from_index)]
fn c17_k_month_nine_star() {
  let y: isize = kani::any(); let mp: isize = kani::any();
  kani::assume(y >= -1 && y <= 9999 && mp >= 0 && mp < 60);
  let m = SixtyCycleMonth { year: SixtyCycleYear { year: y }, month: cheap_cycle(mp) };
  let yb = spec::emod(y as i64 - 4, 60) % 12;
  // years of 子午卯酉 start the Yin month at Eight White, 辰戌丑未 at Five Yellow, 寅申巳亥 at Two Black; descending per month
  let first = match yb % 3 { 0 => 7, 1 => 4, _ => 1 };
  let idx = spec::emod(mp as i64 % 12 - 2, 12);
  assert!(m.get_nine_star().get_index() as i64 == spec::emod(first - idx, 9), "month star by year-branch group, descending from the Yin month");
  kani::cover!(idx == 11 && yb == 2, "month_nine_star reachable");
}

#[kani::proof]
#[kani::unwind(61)]
#[kani::stub(alloc::fmt::format, stub_format)]
#[kani::stub(EarthBranch::from_index, faithful_branch_from_index)]
fn c17_k_hour_twelve_star() {
  let dp: isize = kani::any(); let hp: isize = kani::any();
  kani::assume(dp >= 0 && dp < 60 && hp >= 0 && hp < 60);
  let sd = SolarDay::from_ymd(2000, 1, 1);
  let h = SixtyCycleHour { solar_time: SolarTime::from_ymd_hms(2000, 1, 1, 0, 0, 0),
    day: SixtyCycleDay { solar_day: sd, month: SixtyCycleMonth { year: SixtyCycleYear { year: 2000 }, month: cheap_cycle(0) }, day: cheap_cycle(dp) }, hour: cheap_cycle(hp) };
  let (db, hb) = (dp as i64 % 12, hp as i64 % 12);
  let start = match db { 2 | 8 => 0, 3 | 9 => 2, 4 | 10 => 4, 5 | 11 => 6, 0 | 6 => 8, _ => 10 };
  assert!(h.get_twelve_star().get_index() as i64 == spec::emod(hb - start, 12), "hour spirits start at the branch fixed by the DAY branch and advance with the hour branch");
  kani::cover!(db == 1 && hb == 11, "hour_twelve_star reachable");
}
