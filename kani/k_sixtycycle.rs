// Kani harness module woven (cfg(kani)) as `mod verif_k` at the end of src/tyme/sixtycycle.rs.
#![allow(dead_code, unused_imports)]
use super::*;
use crate::tyme::{Culture, Tyme};
#[path = "@SPEC@"]
pub mod spec;
pub fn stub_format(_a: core::fmt::Arguments<'_>) -> String { String::new() }
//@CYCLES

fn yy(h: &HeavenStem) -> i64 { if h.get_yin_yang() == YinYang::YANG { 0 } else { 1 } }

// ---- C19: stem / branch attributes against the first-principles rules; one getter per harness (each getter
// builds a name table, several per harness exceed the solver budget), index symbolic over its whole domain
macro_rules! stem_attr { ($name:ident, $get:expr, $want:expr, $msg:expr) => {
  #[kani::proof]
  #[kani::stub(alloc::fmt::format, stub_format)]
  fn $name() {
    let s: isize = kani::any();
    kani::assume(s >= 0 && s < 10);
    let h = HeavenStem::from_index(s);
    let got: i64 = ($get)(&h);
    assert!(got == ($want)(s as i64), $msg);
    kani::cover!(s == 9, "reachable");
  }
} }
stem_attr!(c19_k_stem_element, |h: &HeavenStem| h.get_element().get_index() as i64, |s| spec::stem_element(s), "stem element");
stem_attr!(c19_k_stem_polarity, |h: &HeavenStem| yy(h), |s| spec::polarity(s), "stem polarity");
stem_attr!(c19_k_stem_direction, |h: &HeavenStem| h.get_direction().get_index() as i64, |s| spec::element_direction(spec::stem_element(s)), "stem direction");
stem_attr!(c19_k_stem_joy, |h: &HeavenStem| h.get_joy_direction().get_index() as i64, |s| spec::joy_direction(s), "joy direction rhyme");
stem_attr!(c19_k_stem_yang_noble, |h: &HeavenStem| h.get_yang_direction().get_index() as i64, |s| spec::noble_direction(s, true), "yang noble rhyme");
stem_attr!(c19_k_stem_yin_noble, |h: &HeavenStem| h.get_yin_direction().get_index() as i64, |s| spec::noble_direction(s, false), "yin noble rhyme");
stem_attr!(c19_k_stem_wealth, |h: &HeavenStem| h.get_wealth_direction().get_index() as i64, |s| spec::wealth_direction(s), "wealth rhyme");
stem_attr!(c19_k_stem_mascot, |h: &HeavenStem| h.get_mascot_direction().get_index() as i64, |s| spec::mascot_direction(s), "fortune rhyme");

#[kani::proof]
#[kani::stub(alloc::fmt::format, stub_format)]
fn c19_k_ten_star() {
  let s: isize = kani::any(); let t: isize = kani::any();
  kani::assume(s >= 0 && s < 10 && t >= 0 && t < 10);
  let r = HeavenStem::from_index(s).get_ten_star(HeavenStem::from_index(t));
  assert!(r.get_index() as i64 == spec::ten_star(s as i64, t as i64), "ten-star == relation of elements x polarity");
  kani::cover!(s == 9 && t == 0, "ten_star reachable");
}

fn c19_terrain_body(slo: isize, shi: isize) {
  let s: isize = kani::any(); let b: isize = kani::any();
  kani::assume(s >= slo && s <= shi && b >= 0 && b < 12);
  let r = HeavenStem::from_index(s).get_terrain(EarthBranch::from_index(b));
  assert!(r.get_index() as i64 == spec::growth_stage(s as i64, b as i64), "growth stage: forward from the birth branch for Yang, backward for Yin");
  kani::cover!(b == 3, "terrain reachable");
}
//@SLICES prefix=c19_k_terrain call=c19_terrain_body lo=0 hi=9 n=10

macro_rules! branch_attr { ($name:ident, $get:expr, $want:expr, $msg:expr) => {
  #[kani::proof]
  #[kani::stub(alloc::fmt::format, stub_format)]
  fn $name() {
    let b: isize = kani::any();
    kani::assume(b >= 0 && b < 12);
    let e = EarthBranch::from_index(b);
    let got: i64 = ($get)(&e);
    assert!(got == ($want)(b as i64), $msg);
    kani::cover!(b == 11, "reachable");
  }
} }
branch_attr!(c19_k_branch_element, |e: &EarthBranch| e.get_element().get_index() as i64, |b| spec::branch_element(b), "branch element");
branch_attr!(c19_k_branch_direction, |e: &EarthBranch| e.get_direction().get_index() as i64, |b| spec::element_direction(spec::branch_element(b)), "branch direction");
branch_attr!(c19_k_branch_zodiac, |e: &EarthBranch| e.get_zodiac().get_index() as i64, |b| b, "zodiac animal");
branch_attr!(c19_k_branch_ominous, |e: &EarthBranch| e.get_ominous().get_index() as i64, |b| spec::ominous_direction(b), "ominous direction");
branch_attr!(c19_k_branch_hide_main, |e: &EarthBranch| e.get_hide_heaven_stem_main().get_index() as i64, |b| spec::hidden_stems(b).0, "hidden stem (main)");
branch_attr!(c19_k_branch_hide_middle, |e: &EarthBranch| e.get_hide_heaven_stem_middle().map(|x| x.get_index() as i64).unwrap_or(-1), |b| spec::hidden_stems(b).1, "hidden stem (middle)");
branch_attr!(c19_k_branch_hide_residual, |e: &EarthBranch| e.get_hide_heaven_stem_residual().map(|x| x.get_index() as i64).unwrap_or(-1), |b| spec::hidden_stems(b).2, "hidden stem (residual)");
branch_attr!(c19_k_branch_clash, |e: &EarthBranch| e.get_opposite().get_index() as i64, |b| spec::clash(b), "clash");
branch_attr!(c19_k_branch_combine, |e: &EarthBranch| e.get_combine().get_index() as i64, |b| spec::six_combine(b).0, "six-combination partner");
branch_attr!(c19_k_branch_harm, |e: &EarthBranch| e.get_harm().get_index() as i64, |b| spec::harm(b), "harm partner");

#[kani::proof]
#[kani::stub(alloc::fmt::format, stub_format)]
fn c19_k_stem_combine() {
  let s: isize = kani::any();
  kani::assume(s >= 0 && s < 10);
  let h = HeavenStem::from_index(s);
  assert!(h.get_combine().get_index() as i64 == spec::stem_combine_partner(s as i64), "five-combination partner");
  kani::cover!(s == 9, "stem_combine reachable");
}
