// Kani harness module woven (cfg(kani)) as `mod verif_k` at the end of src/tyme/sixtycycle.rs.
#![allow(dead_code, unused_imports)]
use super::*;
use crate::tyme::{Culture, Tyme};
#[path = "@SPEC@"]
pub mod spec;
pub fn stub_format(_a: core::fmt::Arguments<'_>) -> String { String::new() }
//@CYCLES

// cheap stand-ins + recorders used by harnesses in other modules (C07): the objects are built over a one-name table so
// that no 10/12/60-entry name table is constructed; the recorded argument is what the harness asserts on
pub static mut REC_STEM: isize = isize::MIN;
pub static mut REC_BRANCH: isize = isize::MIN + 1;
fn one_name() -> Vec<String> { let mut v: Vec<String> = Vec::new(); v.push(String::new()); v }
pub fn rec_stem_from_index(i: isize) -> HeavenStem { unsafe { REC_STEM = i; } HeavenStem { parent: LoopTyme::from_index(one_name(), 0) } }
pub fn rec_branch_from_index(i: isize) -> EarthBranch { unsafe { REC_BRANCH = i; } EarthBranch { parent: LoopTyme::from_index(one_name(), 0) } }
pub fn const_cycle_from_name(_n: &str) -> SixtyCycle { SixtyCycle { parent: LoopTyme::from_index(one_name(), 0) } }

// index-faithful cheap constructors: the same LoopTyme arithmetic (index_of, next_index, size) over a table of EMPTY names.
// Sound for functions that only do index arithmetic on these values (names are read only by format!, which is stubbed,
// and by the name lookup from_name, which is stubbed by a constant and decomposed as described in DESIGN 2.3);
// NOT used for functions that compare values with == (name-based equality).
pub fn empties(n: usize) -> Vec<String> { let mut v: Vec<String> = Vec::with_capacity(n); let mut i = 0; while i < n { v.push(String::new()); i += 1; } v }
pub fn cheap_cycle(i: isize) -> SixtyCycle { SixtyCycle { parent: LoopTyme::from_index(empties(60), i) } }
pub fn faithful_cycle_from_index(i: isize) -> SixtyCycle { cheap_cycle(i) }
pub fn faithful_stem_from_index(i: isize) -> HeavenStem { unsafe { REC_STEM = i; } HeavenStem { parent: LoopTyme::from_index(empties(10), i) } }
pub fn faithful_branch_from_index(i: isize) -> EarthBranch { unsafe { REC_BRANCH = i; } EarthBranch { parent: LoopTyme::from_index(empties(12), i) } }

fn yy(h: &HeavenStem) -> i64 { if h.get_yin_yang() == YinYang::YANG { 0 } else { 1 } }

// ---- C19: stem / branch attributes against the first-principles rules; one getter per harness (each getter
// builds a name table, several per harness exceed the solver budget), index symbolic over its whole domain
macro_rules! stem_attr { ($name:ident, $get:expr, $want:expr, $msg:expr) => {
  #[kani::proof]
  #[kani::stub(alloc::fmt::format, stub_format)]
  fn $name() {
    let s: isize = kani::any();
    kani::assume(s >= 0 && s < 10);
    let h = HeavenStem::from_index(s);
    let got: i64 = ($get)(&h);
    assert!(got == ($want)(s as i64), $msg);
    kani::cover!(s == 9, "reachable");
  }
} }
stem_attr!(c19_k_stem_element, |h: &HeavenStem| h.get_element().get_index() as i64, |s| spec::stem_element(s), "stem element");
// (stem polarity: string-based enum equality, times out; enumerated by c19_attributes)
stem_attr!(c19_k_stem_direction, |h: &HeavenStem| h.get_direction().get_index() as i64, |s| spec::element_direction(spec::stem_element(s)), "stem direction");
stem_attr!(c19_k_stem_joy, |h: &HeavenStem| h.get_joy_direction().get_index() as i64, |s| spec::joy_direction(s), "joy direction rhyme");
stem_attr!(c19_k_stem_yang_noble, |h: &HeavenStem| h.get_yang_direction().get_index() as i64, |s| spec::noble_direction(s, true), "yang noble rhyme");
stem_attr!(c19_k_stem_yin_noble, |h: &HeavenStem| h.get_yin_direction().get_index() as i64, |s| spec::noble_direction(s, false), "yin noble rhyme");
stem_attr!(c19_k_stem_wealth, |h: &HeavenStem| h.get_wealth_direction().get_index() as i64, |s| spec::wealth_direction(s), "wealth rhyme");
stem_attr!(c19_k_stem_mascot, |h: &HeavenStem| h.get_mascot_direction().get_index() as i64, |s| spec::mascot_direction(s), "fortune rhyme");

#[kani::proof]
#[kani::stub(alloc::fmt::format, stub_format)]
fn c19_k_ten_star() {
  let s: isize = kani::any(); let t: isize = kani::any();
  kani::assume(s >= 0 && s < 10 && t >= 0 && t < 10);
  let r = HeavenStem::from_index(s).get_ten_star(HeavenStem::from_index(t));
  assert!(r.get_index() as i64 == spec::ten_star(s as i64, t as i64), "ten-star == relation of elements x polarity");
  kani::cover!(s == 9 && t == 0, "ten_star reachable");
}

// (growth stages 10 x 12: the Kani harness times out even per stem - get_terrain compares YinYang values through their
//  names; decided by the complete enumeration c19_attributes.)

macro_rules! branch_attr { ($name:ident, $get:expr, $want:expr, $msg:expr) => {
  #[kani::proof]
  #[kani::stub(alloc::fmt::format, stub_format)]
  fn $name() {
    let b: isize = kani::any();
    kani::assume(b >= 0 && b < 12);
    let e = EarthBranch::from_index(b);
    let got: i64 = ($get)(&e);
    assert!(got == ($want)(b as i64), $msg);
    kani::cover!(b == 11, "reachable");
  }
} }
branch_attr!(c19_k_branch_element, |e: &EarthBranch| e.get_element().get_index() as i64, |b| spec::branch_element(b), "branch element");
branch_attr!(c19_k_branch_direction, |e: &EarthBranch| e.get_direction().get_index() as i64, |b| spec::element_direction(spec::branch_element(b)), "branch direction");
branch_attr!(c19_k_branch_zodiac, |e: &EarthBranch| e.get_zodiac().get_index() as i64, |b| b, "zodiac animal");
branch_attr!(c19_k_branch_ominous, |e: &EarthBranch| e.get_ominous().get_index() as i64, |b| spec::ominous_direction(b), "ominous direction");
branch_attr!(c19_k_branch_hide_main, |e: &EarthBranch| e.get_hide_heaven_stem_main().get_index() as i64, |b| spec::hidden_stems(b).0, "hidden stem (main)");
// (hidden middle / residual stems: Option-valued getters, time out; enumerated by c19_attributes)
branch_attr!(c19_k_branch_clash, |e: &EarthBranch| e.get_opposite().get_index() as i64, |b| spec::clash(b), "clash");
branch_attr!(c19_k_branch_combine, |e: &EarthBranch| e.get_combine().get_index() as i64, |b| spec::six_combine(b).0, "six-combination partner");
branch_attr!(c19_k_branch_harm, |e: &EarthBranch| e.get_harm().get_index() as i64, |b| spec::harm(b), "harm partner");

#[kani::proof]
#[kani::stub(alloc::fmt::format, stub_format)]
fn c19_k_stem_combine() {
  let s: isize = kani::any();
  kani::assume(s >= 0 && s < 10);
  let h = HeavenStem::from_index(s);
  assert!(h.get_combine().get_index() as i64 == spec::stem_combine_partner(s as i64), "five-combination partner");
  kani::cover!(s == 9, "stem_combine reachable");
}


// ---- C08: first month of a sexagenary year (Five Tigers): the stem index fed to the "X寅" name lookup ------------
#[kani::proof]
#[kani::unwind(61)]
#[kani::stub(alloc::fmt::format, stub_format)]
#[kani::stub(SixtyCycle::from_index, faithful_cycle_from_index)]
#[kani::stub(HeavenStem::from_index, faithful_stem_from_index)]
#[kani::stub(SixtyCycle::from_name, const_cycle_from_name)]
fn c08_k_first_month_args() {
  let y: isize = kani::any();
  kani::assume(y >= -1 && y <= 9999);
  let _ = SixtyCycleYear { year: y }.get_first_month();
  let ys = spec::emod(y as i64 - 4, 60) % 10;
  assert!(spec::emod(unsafe { REC_STEM } as i64, 10) == spec::five_tigers(ys), "the Yin month of the year takes its stem by the Five-Tigers rule");
  kani::cover!(y == 2024, "first_month reachable");
}

// ---- C17: day officer and twelve spirits of a sexagenary day: index arithmetic on (day branch, month branch) -------
fn any_sixty_cycle_day() -> (SixtyCycleDay, i64, i64) {
  let dp: isize = kani::any(); let mp: isize = kani::any(); let y: isize = kani::any();
  kani::assume(dp >= 0 && dp < 60 && mp >= 0 && mp < 60 && y >= 1 && y <= 9999);
  let sd = SolarDay::from_ymd(2000, 1, 1);
  (SixtyCycleDay { solar_day: sd, month: SixtyCycleMonth { year: SixtyCycleYear { year: y }, month: cheap_cycle(mp) }, day: cheap_cycle(dp) }, dp as i64, mp as i64)
}
#[kani::proof]
#[kani::unwind(61)]
#[kani::stub(alloc::fmt::format, stub_format)]
#[kani::stub(EarthBranch::from_index, faithful_branch_from_index)]
fn c17_k_duty() {
  let (d, dp, mp) = any_sixty_cycle_day();
  let (db, mb) = (dp % 12, mp % 12);
  let r = d.get_duty().get_index() as i64;
  assert!(r == spec::emod(db - mb, 12), "day officer == (day branch - month branch) mod 12");
  assert!((r == 0) == (db == mb), "Jian exactly when the day branch equals the month branch");
  kani::cover!(db == 0 && mb == 11, "duty reachable");
}
#[kani::proof]
#[kani::unwind(61)]
#[kani::stub(alloc::fmt::format, stub_format)]
#[kani::stub(EarthBranch::from_index, faithful_branch_from_index)]
fn c17_k_twelve_star() {
  let (d, dp, mp) = any_sixty_cycle_day();
  let (db, mb) = (dp % 12, mp % 12);
  // Azure Dragon starts at 子 in 寅申 months, 寅 in 卯酉, 辰 in 辰戌, 午 in 巳亥, 申 in 子午, 戌 in 丑未 months
  let start = match mb { 2 | 8 => 0, 3 | 9 => 2, 4 | 10 => 4, 5 | 11 => 6, 0 | 6 => 8, _ => 10 };
  assert!(d.get_twelve_star().get_index() as i64 == spec::emod(db - start, 12), "twelve spirits start at the branch fixed by the month branch and advance with the day branch");
  kani::cover!(db == 0 && mb == 11, "twelve_star reachable");
}

// (28 mansions: the Kani harness over (weekday, pillar) pairs took 580 s and ended in spurious dealloc checks of the
//  28-name tables; luminary == weekday and +1 per day are checked by execution for every date, c17_day_series.)

// ---- C08 / C11: SixtyCycleMonth::next: 12*year + index moves by exactly n; the pillar moves by n --------------------------
#[kani::proof]
#[kani::unwind(61)]
#[kani::stub(alloc::fmt::format, stub_format)]
#[kani::stub(SixtyCycle::from_index, faithful_cycle_from_index)]
#[kani::stub(EarthBranch::from_index, faithful_branch_from_index)]
fn c08_k_month_next() {
  let y: isize = kani::any(); let mp: isize = kani::any(); let n: isize = kani::any();
  kani::assume(y >= -1 && y <= 9999 && mp >= 0 && mp < 60 && n >= -300 && n <= 300);   // |n| <= 300: 64-bit div/mod circuits time out for wider n (every n: verus/c11_month_next.rs)
  let m = SixtyCycleMonth { year: SixtyCycleYear { year: y }, month: cheap_cycle(mp) };
  let idx = spec::emod(mp as i64 % 12 - 2, 12);                       // position in the year: Yin month = 0
  let t = (y as i64) * 12 + idx + n as i64;
  kani::assume(t >= -12 && t <= 9999 * 12 + 11);   // the target year stays in -1..=9999
  let r = m.next(n);
  assert!(m.get_index_in_year() as i64 == idx, "index in year counts from the Yin month");
  assert!((r.get_sixty_cycle_year().get_year() as i64) * 12 + r.get_index_in_year() as i64 == t, "12*year + index moves by exactly n");
  assert!(r.get_sixty_cycle().get_index() as i64 == spec::emod(mp as i64 + n as i64, 60), "the month pillar moves by n");
  kani::cover!(n == -1 && idx == 0, "month_next reachable (backward across Lichun)");
}

// ---- C17: flying nine stars of year and month, hour twelve spirits (index arithmetic; cheap constructors) ---------------
#[kani::proof]
#[kani::unwind(61)]
#[kani::stub(alloc::fmt::format, stub_format)]
#[kani::stub(SixtyCycle::from_index, faithful_cycle_from_index)]
fn c17_k_year_nine_star() {
  let y: isize = kani::any();
  kani::assume(y >= -1 && y <= 9999);
  // 1864 (first year of an Upper Era, Jiazi) is One White; the star descends by one per year
  let want = spec::emod(0 - (y as i64 - 1864), 9);
  assert!(SixtyCycleYear { year: y }.get_nine_star().get_index() as i64 == want, "year star descends one per year from 1864 = One White");
  assert!(LunarYear::from_year(y).get_nine_star().get_index() as i64 == want, "the lunar-year view agrees");
  kani::cover!(y == -1, "year_nine_star reachable");
}

#[kani::proof]
#[kani::unwind(61)]
#[kani::stub(alloc::fmt::format, stub_format)]
#[kani::stub(SixtyCycle::from_index, faithful_cycle_from_index)]
#[kani::stub(EarthBranch::from_index, faithful_branch_from_index)]
fn c17_k_month_nine_star() {
  let y: isize = kani::any(); let mp: isize = kani::any();
  kani::assume(y >= -1 && y <= 9999 && mp >= 0 && mp < 60);
  let m = SixtyCycleMonth { year: SixtyCycleYear { year: y }, month: cheap_cycle(mp) };
  let yb = spec::emod(y as i64 - 4, 60) % 12;
  // years of 子午卯酉 start the Yin month at Eight White, 辰戌丑未 at Five Yellow, 寅申巳亥 at Two Black; descending per month
  let first = match yb % 3 { 0 => 7, 1 => 4, _ => 1 };
  let idx = spec::emod(mp as i64 % 12 - 2, 12);
  assert!(m.get_nine_star().get_index() as i64 == spec::emod(first - idx, 9), "month star by year-branch group, descending from the Yin month");
  kani::cover!(idx == 11 && yb == 2, "month_nine_star reachable");
}

#[kani::proof]
#[kani::unwind(61)]
#[kani::stub(alloc::fmt::format, stub_format)]
#[kani::stub(EarthBranch::from_index, faithful_branch_from_index)]
fn c17_k_hour_twelve_star() {
  let dp: isize = kani::any(); let hp: isize = kani::any();
  kani::assume(dp >= 0 && dp < 60 && hp >= 0 && hp < 60);
  let sd = SolarDay::from_ymd(2000, 1, 1);
  let h = SixtyCycleHour { solar_time: SolarTime::from_ymd_hms(2000, 1, 1, 0, 0, 0),
    day: SixtyCycleDay { solar_day: sd, month: SixtyCycleMonth { year: SixtyCycleYear { year: 2000 }, month: cheap_cycle(0) }, day: cheap_cycle(dp) }, hour: cheap_cycle(hp) };
  let (db, hb) = (dp as i64 % 12, hp as i64 % 12);
  let start = match db { 2 | 8 => 0, 3 | 9 => 2, 4 | 10 => 4, 5 | 11 => 6, 0 | 6 => 8, _ => 10 };
  assert!(h.get_twelve_star().get_index() as i64 == spec::emod(hb - start, 12), "hour spirits start at the branch fixed by the DAY branch and advance with the hour branch");
  kani::cover!(db == 1 && hb == 11, "hour_twelve_star reachable");
}


// NOTE (Kani 0.68): a zero-initialised `static mut` scalar can share its initialiser allocation with a zero constant of the
// standard library (observed: writing 9 to such a static made String::new() report capacity 9). Every recording static
// in the harness files therefore starts from a distinct non-zero value.
// ---- C08 / C09: SixtyCycleDay::from_solar_day and SixtyCycleHour::from_solar_time -- the real bodies decide the year
// pillar (changes at the start of spring) and the month pillar (changes at each Jie) from four facts they ask other
// functions for: the start-of-spring instant of the civil year, the lunar date, the governing solar term and its
// instant. Those four callees are replaced by stubs returning ARBITRARY values constrained only by their own contracts
// (C06: terms are ordered; C02: the lunar year is the civil year or its neighbour), so the proof covers every such answer.
use crate::tyme::solar::verif_k::{mk_term, mk_day, mk_time};
use crate::tyme::lunar::verif_k::{mk_lunar_day, mk_lunar_hour, mk_month_pub};
use crate::tyme::jd::JulianDay;
use std::cell::RefCell;
static mut W_SPRING: (isize, usize, usize, usize, usize, usize) = (-7101, 7102, 7103, 7104, 7105, 7106);
static mut W_TERMT: (isize, usize, usize, usize, usize, usize) = (-7201, 7202, 7203, 7204, 7205, 7206);
static mut W_TERM: (isize, isize) = (-7301, -7302);
static mut W_LY: isize = -7401;
static mut W_BASE: isize = -7402;
static mut W_DP: isize = -7403;
static mut W_HP: isize = -7404;
static mut W_FROM_YM: (isize, isize) = (-7501, -7502);
static mut W_SPRING_ARGS_OK: bool = true;
fn w_term_from_index(year: isize, index: isize) -> SolarTerm { unsafe { if index != 3 { W_SPRING_ARGS_OK = false; } W_FROM_YM.0 = year; } mk_term(year, index, 1.0) }
fn w_get_term_day(_d: &SolarDay) -> SolarTerm { let (y, i) = unsafe { W_TERM }; mk_term(y, i, 2.0) }
fn w_get_term_time(_t: &SolarTime) -> SolarTerm { let (y, i) = unsafe { W_TERM }; mk_term(y, i, 2.0) }
fn w_term_jd(t: &SolarTerm) -> JulianDay { JulianDay::from_julian_day(t.get_cursory_julian_day()) }
fn w_jd_solar_day(j: &JulianDay) -> SolarDay { let v = unsafe { if j.get_day() == 1.0 { W_SPRING } else { W_TERMT } }; mk_day(v.0, v.1, v.2) }
// JulianDay::get_solar_time carries a woven contract and cannot be stubbed; for the instant-based variant the term's
// day number is a fixed code (noon of 9999-12-30 = start of spring, 9999-12-29 = governing term; the subject is kept
// out of year 9999), the real get_solar_time turns the code into that date, and the two order tests interpret the codes
// as the arbitrary instants (SolarTime::is_before / is_after themselves are proved in c12_k_time_order)
fn w_term_jd_code(t: &SolarTerm) -> JulianDay { JulianDay::from_julian_day(if t.get_cursory_julian_day() == 1.0 { 5373483.0 } else { 5373482.0 }) }
fn w_key(t: &SolarTime) -> (isize, i64) {
  if t.get_year() == 9999 && t.get_month() == 12 && t.get_day() == 30 { let v = unsafe { W_SPRING }; (v.0, md(v.1, v.2, v.3, v.4, v.5)) }
  else if t.get_year() == 9999 && t.get_month() == 12 && t.get_day() == 29 { let v = unsafe { W_TERMT }; (v.0, md(v.1, v.2, v.3, v.4, v.5)) }
  else { (t.get_year(), md(t.get_month(), t.get_day(), t.get_hour(), t.get_minute(), t.get_second())) }
}
fn w_time_before(a: &SolarTime, b: SolarTime) -> bool { let (x, y) = (w_key(a), w_key(&b)); x.0 < y.0 || (x.0 == y.0 && x.1 < y.1) }
fn w_time_after(a: &SolarTime, b: SolarTime) -> bool { let (x, y) = (w_key(a), w_key(&b)); x.0 > y.0 || (x.0 == y.0 && x.1 > y.1) }
fn w_lunar_day(_d: &SolarDay) -> LunarDay { mk_lunar_day(unsafe { W_LY }, 1, 1) }
fn w_lunar_hour(t: &SolarTime) -> LunarHour { mk_lunar_hour(unsafe { W_LY }, 1, 1, t.get_hour(), t.get_minute(), t.get_second()) }
fn w_month_from_ym(y: isize, m: isize) -> LunarMonth { unsafe { W_FROM_YM = (y, m); } mk_month_pub(y, m) }
fn w_month_pillar(_m: &LunarMonth) -> SixtyCycle { cheap_cycle(unsafe { W_BASE }) }
fn w_day_pillar(_d: &LunarDay) -> SixtyCycle { cheap_cycle(unsafe { W_DP }) }
fn w_hour_pillar(_h: &LunarHour) -> SixtyCycle { cheap_cycle(unsafe { W_HP }) }
fn md(m: usize, d: usize, h: usize, mi: usize, s: usize) -> i64 { ((((m as i64) * 32 + d as i64) * 24 + h as i64) * 60 + mi as i64) * 60 + s as i64 }

/// sets the arbitrary answers; returns (civil year sy, date/time of the subject, tseq = position of the governing term
/// counted from the winter solstice that opens civil year sy's term cycle, subject is at or after start of spring)
fn w_world(with_clock: bool, tlo: i64, thi: i64) -> (isize, (usize, usize, usize, usize, usize), i64, bool) {
  let sy: isize = kani::any(); kani::assume(sy >= 2 && sy <= 9998);
  let m: usize = kani::any(); let d: usize = kani::any(); kani::assume(m >= 1 && m <= 12 && d >= 1 && d <= 28);
  let (h, mi, s): (usize, usize, usize) = if with_clock { (kani::any(), kani::any(), kani::any()) } else { (0, 0, 0) };
  kani::assume(h < 24 && mi < 60 && s < 60);
  kani::assume(!(sy == 1582 && m == 10 && d >= 5 && d <= 14)); // the ten dates that do not exist
  // start of spring: some instant of January or February of sy (late January in the late Julian centuries, 3..5 February today)
  let sm: usize = kani::any(); let sd: usize = kani::any();
  let (sh, smi, ss): (usize, usize, usize) = if with_clock { (kani::any(), kani::any(), kani::any()) } else { (0, 0, 0) };
  kani::assume(sm >= 1 && sm <= 2 && sd >= 1 && sd <= 28 && sh < 24 && smi < 60 && ss < 60);
  // governing term (ty, ti) with its instant; tseq = ti + 24 * (ty - sy) counts from the winter solstice that opens sy's term
  // cycle: 0..=26 (a late-December subject can already lie in the minor or major cold of the next cycle)
  let ty: isize = kani::any(); let ti: isize = kani::any(); kani::assume(ti >= 0 && ti < 24 && (ty == sy || (ty == sy + 1 && ti <= 2)));
  let tseq: i64 = ti as i64 + 24 * (ty - sy) as i64;
  kani::assume(tseq >= tlo && tseq <= thi);   // this harness's share of the term positions 0..=26
  let tyear: isize = kani::any(); let tm: usize = kani::any(); let td: usize = kani::any();
  let (th, tmi, ts): (usize, usize, usize) = if with_clock { (kani::any(), kani::any(), kani::any()) } else { (0, 0, 0) };
  kani::assume(tm >= 1 && tm <= 12 && td >= 1 && td <= 28 && th < 24 && tmi < 60 && ts < 60);
  // the governing term's own instant lies in sy, or (terms 0..2 only) in December of sy - 1
  kani::assume(tyear == sy || (tyear == sy - 1 && tm == 12 && tseq <= 2));
  kani::assume(!(tyear == 1582 && tm == 10 && td >= 5 && td <= 14));
  let yk = |y: isize| (y as i64) * 40_000_000;
  let (subj, spring, term) = (yk(sy) + md(m, d, h, mi, s), yk(sy) + md(sm, sd, sh, smi, ss), yk(tyear) + md(tm, td, th, tmi, ts));
  // contract of the term callees (C06): terms are strictly ordered in time, start of spring is term 3 of sy, the governing
  // term has begun and is the LAST one that has: the subject is before start of spring exactly when it is one of terms 0..2
  kani::assume(if tseq < 3 { term < spring } else if tseq == 3 { term == spring } else { term > spring });
  kani::assume(term <= subj);
  kani::assume((subj < spring) == (tseq < 3));
  let ly: isize = kani::any();
  // contract of the lunar callee (C02 + calendar fact): lunar year is sy or sy-1; sy+1 only late in the civil year
  kani::assume(ly == sy || ly == sy - 1 || (ly == sy + 1 && subj >= spring));
  let base: isize = kani::any(); let dp: isize = kani::any(); let hp: isize = kani::any();
  kani::assume(base >= 0 && base < 60 && dp >= 0 && dp < 60 && hp >= 0 && hp < 60);
  unsafe { W_SPRING = (sy, sm, sd, sh, smi, ss); W_TERMT = (tyear, tm, td, th, tmi, ts); W_TERM = (ty, ti); W_LY = ly; W_BASE = base; W_DP = dp; W_HP = hp; }
  (sy, (m, d, h, mi, s), tseq, subj >= spring)
}

macro_rules! from_solar_day_harness { ($name:ident, $tlo:expr, $thi:expr, $c1:expr, $c2:expr) => {
  #[kani::proof]
  #[kani::unwind(61)]
  #[kani::stub(alloc::fmt::format, stub_format)]
  #[kani::stub(SolarTerm::from_index, w_term_from_index)]
  #[kani::stub(SolarDay::get_term, w_get_term_day)]
  #[kani::stub(SolarTerm::get_julian_day, w_term_jd)]
  #[kani::stub(JulianDay::get_solar_day, w_jd_solar_day)]
  #[kani::stub(SolarDay::get_lunar_day, w_lunar_day)]
  #[kani::stub(LunarMonth::from_ym, w_month_from_ym)]
  #[kani::stub(LunarMonth::get_sixty_cycle, w_month_pillar)]
  #[kani::stub(LunarDay::get_sixty_cycle, w_day_pillar)]
  #[kani::stub(SixtyCycle::from_index, faithful_cycle_from_index)]
  fn $name() {
    let (sy, (m, d, _, _, _), tseq, after) = w_world(false, $tlo, $thi);
    let r = SixtyCycleDay::from_solar_day(mk_day(sy, m, d));
    assert!(r.month.year.year == if after { sy } else { sy - 1 }, "the year pillar is that of the civil year from the start of spring on, of the previous year before it");
    let k = spec::ediv(tseq - 3, 2);
    assert!(r.month.month.get_index() as i64 == spec::emod(unsafe { W_BASE } as i64 + k, 60), "the month pillar is the first-month pillar of the civil year advanced by floor((term position - 3) / 2): it changes at each Jie and only there");
    assert!(r.day.get_index() as isize == unsafe { W_DP } && r.solar_day == mk_day(sy, m, d), "day pillar and date are carried unchanged");
    assert!(unsafe { W_FROM_YM } == (sy, 1) && unsafe { W_SPRING_ARGS_OK }, "asks for start of spring (term 3) and the first lunar month of the civil year");
    core::mem::forget(r);
    kani::cover!(tseq == $c1, "from_solar_day reachable (low end of this share)");
    kani::cover!(tseq == $c2, "from_solar_day reachable (high end of this share)");
  }
} }
// the term positions 0..=26 are split over three harnesses (solver time); together they cover every position
from_solar_day_harness!(c08_k_from_solar_day_t00_02, 0, 2, 0, 2);
from_solar_day_harness!(c08_k_from_solar_day_t03_13, 3, 13, 3, 13);
from_solar_day_harness!(c08_k_from_solar_day_t14_26, 14, 26, 14, 25);

macro_rules! from_solar_time_harness { ($name:ident, $tlo:expr, $thi:expr, $c1:expr) => {
  #[kani::proof]
  #[kani::unwind(61)]
  #[kani::stub(alloc::fmt::format, stub_format)]
  #[kani::stub(SolarTerm::from_index, w_term_from_index)]
  #[kani::stub(SolarTime::get_term, w_get_term_time)]
  #[kani::stub(SolarTerm::get_julian_day, w_term_jd_code)]
  #[kani::stub(SolarTime::is_before, w_time_before)]
  #[kani::stub(SolarTime::is_after, w_time_after)]
  #[kani::stub(SolarTime::get_lunar_hour, w_lunar_hour)]
  #[kani::stub(LunarMonth::from_ym, w_month_from_ym)]
  #[kani::stub(LunarMonth::get_sixty_cycle, w_month_pillar)]
  #[kani::stub(LunarDay::get_sixty_cycle, w_day_pillar)]
  #[kani::stub(LunarHour::get_sixty_cycle, w_hour_pillar)]
  #[kani::stub(SixtyCycle::from_index, faithful_cycle_from_index)]
  fn $name() {
    let (sy, (m, d, h, mi, s), tseq, after) = w_world(true, $tlo, $thi);
    let t = mk_time(sy, m, d, h, mi, s);
    let r = SixtyCycleHour::from_solar_time(t);
    assert!(r.day.month.year.year == if after { sy } else { sy - 1 }, "year pillar switches at the start-of-spring instant");
    let k = spec::ediv(tseq - 3, 2);
    assert!(r.day.month.month.get_index() as i64 == spec::emod(unsafe { W_BASE } as i64 + k, 60), "month pillar switches at each Jie instant");
    assert!(r.day.day.get_index() as i64 == spec::emod(unsafe { W_DP } as i64 + if h == 23 { 1 } else { 0 }, 60), "the day pillar is that of the lunar day, advanced by one from 23:00 (the Zi hour opens the next day)");
    assert!(r.hour.get_index() as isize == unsafe { W_HP } && r.solar_time == t && r.day.solar_day == t.get_solar_day(), "hour pillar, instant and date are carried unchanged");
    core::mem::forget(r);
    kani::cover!(h == 23 && tseq == $c1, "from_solar_time reachable");
  }
} }
from_solar_time_harness!(c09_k_from_solar_time_t00_02, 0, 2, 1);
from_solar_time_harness!(c09_k_from_solar_time_t03_13, 3, 13, 3);
from_solar_time_harness!(c09_k_from_solar_time_t14_26, 14, 26, 25);

// closing lemma of C08 (pure arithmetic over the contracts above, no library code): the month stem is fixed by the stem
// of the PILLAR year through the Five-Tigers rule, also in January / early February where the pillar year is the
// previous civil year but the month pillar is counted back from the first month of the current one.
#[kani::proof]
#[kani::stub(alloc::fmt::format, stub_format)]
fn c08_k_pair_lemma() {
  let sy: i64 = kani::any(); let tseq: i64 = kani::any();
  kani::assume(sy >= 2 && sy <= 9998 && tseq >= 0 && tseq <= 26);
  let after = tseq >= 3;
  let pillar_year = if after { sy } else { sy - 1 };
  let k = spec::ediv(tseq - 3, 2);                                   // c08_k_from_solar_day
  let first_stem = spec::five_tigers(spec::emod(sy - 4, 10));        // c08_k_first_month_args / c08_k_month_pillar_args
  let (month_stem, month_branch) = (spec::emod(first_stem + k, 10), spec::emod(2 + k, 12));
  let position = spec::emod(month_branch - 2, 12);
  assert!(month_stem == spec::emod(spec::five_tigers(spec::emod(pillar_year - 4, 10)) + position, 10), "month stem == Five-Tigers stem of the pillar-year stem + position of the month branch counted from Yin");
  assert!(spec::emod(month_stem, 2) == spec::emod(month_branch, 2), "stem and branch have the same parity: a legal pillar");
  kani::cover!(!after && k == -2, "pair_lemma reachable (Zi month of the previous pillar year)");
}

// C15: the conversions `HeavenStem -> LoopTyme` / `EarthBranch -> LoopTyme` used by the Dog-day and Plum-rain code keep the
// index and have the size of the real name tables (10 / 12) - the `verif_into` contract of the Verus unit c15_series.
#[kani::proof]
#[kani::unwind(14)]
#[kani::stub(alloc::fmt::format, stub_format)]
fn c15_k_into_loop_stem() {
  let i: isize = kani::any(); kani::assume(i >= 0 && i < 10);
  let l: LoopTyme = HeavenStem::from_index(i).into();
  assert!(l.get_index() as isize == i && l.get_size() == 10, "stem -> LoopTyme keeps the index; 10 stems");
  kani::cover!(i == 6, "into_loop_stem reachable");
}
#[kani::proof]
#[kani::unwind(14)]
#[kani::stub(alloc::fmt::format, stub_format)]
fn c15_k_into_loop_branch() {
  let i: isize = kani::any(); kani::assume(i >= 0 && i < 12);
  let l: LoopTyme = EarthBranch::from_index(i).into();
  assert!(l.get_index() as isize == i && l.get_size() == 12, "branch -> LoopTyme keeps the index; 12 branches");
  kani::cover!(i == 7, "into_loop_branch reachable");
}

// ---- C11: the sexagenary day / hour views step by stepping the civil day / instant they wrap and re-deriving the pillars:
// next(n) hands exactly n to SolarDay::next / SolarTime::next (proved: c01_k5_next, verus c12_time_next) and builds the result
// from exactly the value that comes back (from_solar_day / from_solar_time: c08_k_from_solar_day_*, c09_k_from_solar_time_*).
static mut N_ARG: isize = -7921;
static mut N_FROM: (isize, usize, usize, usize, usize, usize) = (-7922, 7923, 7924, 7925, 7926, 7927);
static mut N_BUILT: (isize, usize, usize, usize, usize, usize) = (-7928, 7929, 7930, 7931, 7932, 7933);
fn n_day_next(d: &SolarDay, n: isize) -> SolarDay { unsafe { N_ARG = n; N_FROM = (d.get_year(), d.get_month(), d.get_day(), 0, 0, 0); } mk_day(4321, 7, 9) }
fn n_time_next(t: &SolarTime, n: isize) -> SolarTime { unsafe { N_ARG = n; N_FROM = (t.get_year(), t.get_month(), t.get_day(), t.get_hour(), t.get_minute(), t.get_second()); } mk_time(4321, 7, 9, 10, 11, 12) }
fn n_from_solar_day(d: SolarDay) -> SixtyCycleDay {
  unsafe { N_BUILT = (d.get_year(), d.get_month(), d.get_day(), 0, 0, 0); }
  SixtyCycleDay { solar_day: d, month: SixtyCycleMonth { year: SixtyCycleYear { year: 1 }, month: cheap_cycle(0) }, day: cheap_cycle(0) }
}
fn n_from_solar_time(t: SolarTime) -> SixtyCycleHour {
  let day = n_from_solar_day(t.get_solar_day());
  unsafe { N_BUILT = (t.get_year(), t.get_month(), t.get_day(), t.get_hour(), t.get_minute(), t.get_second()); }
  SixtyCycleHour { solar_time: t, day, hour: cheap_cycle(0) }
}
#[kani::proof]
#[kani::unwind(61)]
#[kani::stub(alloc::fmt::format, stub_format)]
#[kani::stub(<SolarDay as Tyme>::next, n_day_next)]
#[kani::stub(SixtyCycleDay::from_solar_day, n_from_solar_day)]
fn c11_k_sixty_day_next() {
  let (d, _, _) = any_sixty_cycle_day();
  let n: isize = kani::any();
  let r = d.next(n);
  assert!(unsafe { N_ARG } == n && unsafe { N_FROM } == (2000, 1, 1, 0, 0, 0), "steps the wrapped civil day by exactly n");
  assert!(unsafe { N_BUILT } == (4321, 7, 9, 0, 0, 0) && r.solar_day == mk_day(4321, 7, 9), "and is rebuilt from exactly the day that comes back");
  core::mem::forget(r); core::mem::forget(d);
  kani::cover!(n == -1, "sixty_day_next reachable");
}
#[kani::proof]
#[kani::unwind(61)]
#[kani::stub(alloc::fmt::format, stub_format)]
#[kani::stub(<SolarTime as Tyme>::next, n_time_next)]
#[kani::stub(SixtyCycleHour::from_solar_time, n_from_solar_time)]
fn c11_k_sixty_hour_next() {
  let (d, _, _) = any_sixty_cycle_day();
  let h = SixtyCycleHour { solar_time: mk_time(2000, 1, 1, 5, 6, 7), day: d, hour: cheap_cycle(3) };
  let n: isize = kani::any();
  let r = h.next(n);
  assert!(unsafe { N_ARG } == n && unsafe { N_FROM } == (2000, 1, 1, 5, 6, 7), "steps the wrapped instant by exactly n seconds");
  assert!(unsafe { N_BUILT } == (4321, 7, 9, 10, 11, 12), "and is rebuilt from exactly the instant that comes back");
  core::mem::forget(r); core::mem::forget(h);
  kani::cover!(n == 7200, "sixty_hour_next reachable");
}

// recording constructors for the commanding-stem harness in solar.rs (C15)
pub static mut H_ARGS: (isize, usize, usize) = (-7951, 7952, 7953);   // (stem index, slot 0 residual / 1 middle / 2 main, day index)
pub fn rec_hide_from_index(i: isize, t: HideHeavenStemType) -> HideHeavenStem {
  unsafe { H_ARGS.0 = i; H_ARGS.1 = match &t { HideHeavenStemType::RESIDUAL => 0, HideHeavenStemType::MIDDLE => 1, HideHeavenStemType::MAIN => 2 }; }
  HideHeavenStem { parent: AbstractCulture::new(), heaven_stem: HeavenStem { parent: LoopTyme::from_index(one_name(), 0) }, hide_heaven_stem_type: t }
}
pub fn rec_hide_day_new(h: HideHeavenStem, di: usize) -> HideHeavenStemDay {
  unsafe { H_ARGS.2 = di; }
  HideHeavenStemDay { parent: AbstractCultureDay::new(AbstractCulture::new(), di), hide_heaven_stem: h }
}

// ---- C11 / C08: the sexagenary year: accepted for -1..=9999, stepping adds n to the year, the year pillar is (year - 4) mod 60
#[kani::proof]
#[kani::unwind(61)]
#[kani::stub(alloc::fmt::format, stub_format)]
#[kani::stub(SixtyCycle::from_index, faithful_cycle_from_index)]
fn c11_k_sixty_year_next() {
  let y: isize = kani::any(); let n: isize = kani::any();
  kani::assume(y >= -1 && y <= 9999 && n >= -20000 && n <= 20000);
  let ok = SixtyCycleYear::new(y + n);
  assert!(ok.is_ok() == (y + n >= -1 && y + n <= 9999), "a sexagenary year is accepted exactly for -1..=9999");
  core::mem::forget(ok);
  kani::assume(y + n >= -1 && y + n <= 9999);
  let r = SixtyCycleYear { year: y }.next(n);
  assert!(r.get_year() == y + n, "the year moves by exactly n");
  assert!(r.get_sixty_cycle().get_index() as i64 == spec::emod((y + n) as i64 - 4, 60), "year pillar == (year - 4) mod 60");
  kani::cover!(y == 0 && n == -1, "sixty_year_next reachable (into year -1)");
}

// ---- C19: the getters that did not finish before the drop-glue and folding findings (DESIGN 8.2) ----------------------
// hidden middle / residual stems: Option-valued; the Option is forgotten after reading it (its drop glue is the blow-up)
macro_rules! branch_opt_attr { ($name:ident, $get:expr, $want:expr, $msg:expr) => {
  #[kani::proof]
  #[kani::stub(alloc::fmt::format, stub_format)]
  fn $name() {
    let b: isize = kani::any();
    kani::assume(b >= 0 && b < 12);
    let e = EarthBranch::from_index(b);
    let r: Option<HeavenStem> = ($get)(&e);
    let got: i64 = match &r { Some(h) => h.get_index() as i64, None => -1 };
    core::mem::forget(r);
    assert!(got == ($want)(b as i64), $msg);
    kani::cover!(b == 11, "reachable");
  }
} }
branch_opt_attr!(c19_k_branch_hide_middle, |e: &EarthBranch| e.get_hide_heaven_stem_middle(), |b| spec::hidden_stems(b).1, "hidden stem (middle), -1 = none");
branch_opt_attr!(c19_k_branch_hide_residual, |e: &EarthBranch| e.get_hide_heaven_stem_residual(), |b| spec::hidden_stems(b).2, "hidden stem (residual), -1 = none");

// stem polarity and the twelve growth stages: the polarity test compares to_string() values, which CBMC folds only for a
// concrete stem - one harness per stem, the branch stays symbolic
// the Display impl of YinYang (`write!(f, "{}", "阴")`) is replaced by a plain write_str of the same text: the formatting
// machinery behind `write!` is what makes `a.to_string() == b.to_string()` intractable
fn yy_fmt(v: &YinYang, f: &mut core::fmt::Formatter<'_>) -> core::fmt::Result { f.write_str(match v { YinYang::YIN => "阴", YinYang::YANG => "阳" }) }
macro_rules! stem_stage { ($name:ident, $s:expr) => {
  #[kani::proof]
  #[kani::stub(alloc::fmt::format, stub_format)]
  #[kani::stub(<YinYang as std::fmt::Display>::fmt, yy_fmt)]
  fn $name() {
    let s: isize = $s; let b: isize = kani::any();
    kani::assume(b >= 0 && b < 12);
    let h = HeavenStem::from_index(s);
    assert!(yy(&h) == spec::emod(s as i64, 2), "stems 甲丙戊庚壬 are Yang, 乙丁己辛癸 Yin");
    let t = h.get_terrain(EarthBranch::from_index(b));
    assert!(t.get_index() as i64 == spec::growth_stage(s as i64, b as i64), "growth stage: Yang stems run forward from their birth branch, Yin stems backward");
    kani::cover!(b == 11, "reachable");
  }
} }
stem_stage!(c19_k_stem_stage_0, 0);
stem_stage!(c19_k_stem_stage_1, 1);
stem_stage!(c19_k_stem_stage_2, 2);
stem_stage!(c19_k_stem_stage_3, 3);
stem_stage!(c19_k_stem_stage_4, 4);
stem_stage!(c19_k_stem_stage_5, 5);
stem_stage!(c19_k_stem_stage_6, 6);
stem_stage!(c19_k_stem_stage_7, 7);
stem_stage!(c19_k_stem_stage_8, 8);
stem_stage!(c19_k_stem_stage_9, 9);
// (with a symbolic stem the same harness does not finish in 8 min: one harness per stem it is.)

/// constructor for harnesses in other modules: an instant-view object with the given day and hour pillars
pub fn mk_sixty_hour(dp: isize, hp: isize) -> SixtyCycleHour {
  SixtyCycleHour { solar_time: mk_time(2000, 1, 1, 0, 0, 0),
    day: SixtyCycleDay { solar_day: mk_day(2000, 1, 1), month: SixtyCycleMonth { year: SixtyCycleYear { year: 2000 }, month: cheap_cycle(0) }, day: cheap_cycle(dp) }, hour: cheap_cycle(hp) }
}
