// Kani harness module woven (cfg(kani)) as `mod verif_k` at the end of src/tyme/jd.rs.
// Child module => sees JulianDay's private field. Nothing here is compiled without cfg(kani).
#![allow(dead_code, unused_imports)]
use super::*;
#[path = "@SPEC@"]
pub mod spec;

pub fn stub_format(_a: core::fmt::Arguments<'_>) -> String { String::new() }

pub const JDN_MIN: i64 = 1721424; // 0001-01-01
pub const JDN_MAX: i64 = 5373484; // 9999-12-31

// ---- contract of JulianDay::from_ymd_hms ---------------------------------------------------------
// requires: a calendar-shaped triple and a clock reading
// ensures : at 00:00:00 (the form every day-level caller uses) day == jdn(y,m,d) - 0.5 exactly (f64),
//           jdn from the first-principles spec; for other clock readings this contract says nothing
//           (the clock part is obligation c12_k_jd_roundtrip)
pub fn pre_from_ymd_hms(year: isize, month: usize, day: usize, hour: usize, minute: usize, second: usize) -> bool {
  year >= 0 && year <= 10000 && month >= 1 && month <= 12 && day >= 1 && day <= 31 && hour < 24 && minute < 60 && second < 60
}
pub fn post_from_ymd_hms(year: isize, month: usize, day: usize, hour: usize, minute: usize, second: usize, r: f64) -> bool {
  !(hour == 0 && minute == 0 && second == 0) || r == (spec::jdn(year as i64, month as i64, day as i64) as f64) - 0.5
}

fn k1_body(ylo: isize, yhi: isize) {
  let y: isize = kani::any();
  let m: usize = kani::any();
  let d: usize = kani::any();
  kani::assume(y >= ylo && y <= yhi);
  let r = JulianDay::from_ymd_hms(y, m, d, kani::any(), kani::any(), kani::any());
  kani::cover!(y == ylo && m == 10 && d == 15, "k1 reachable");
  let _ = r;
}
//@SLICES prefix=c01_k1_ymd2jd call=k1_body lo=0 hi=10000 n=32 attr="#[kani::proof_for_contract(JulianDay::from_ymd_hms)]"

// ---- contract of JulianDay::get_solar_time ---------------------------------------------------------
// requires: a Julian date inside the supported range 0001-01-01 00:00 .. 9999-12-31 24:00
// ensures : for self.day == n - 0.5 (midnight) or == n (noon) with n an integer day number (the forms the day-level
//           callers use): the result is a valid civil date at 00:00:00 resp. 12:00:00 whose day number is n. For fractional dates this
//           contract says nothing (obligations c12_k_jd_roundtrip / c12_jd_fraction cover the clock part).
pub fn pre_get_solar_time(day: f64) -> bool {
  day >= (JDN_MIN as f64) - 0.5 && day < (JDN_MAX as f64) + 0.5
}
pub fn post_get_solar_time(day: f64, r: &SolarTime) -> bool {
  let n = (day + 0.5) as i64;
  let (y, m, d) = (r.get_year() as i64, r.get_month() as i64, r.get_day() as i64);
  if day == (n as f64) - 0.5 {
    // midnight form (civil dates): 00:00:00 of the date with day number n
    spec::valid_date(y, m, d) && spec::jdn(y, m, d) == n && r.get_hour() == 0 && r.get_minute() == 0 && r.get_second() == 0
  } else if day == n as f64 {
    // noon form (first days of lunar months are integral Julian days): 12:00:00 of the date with day number n
    spec::valid_date(y, m, d) && spec::jdn(y, m, d) == n && r.get_hour() == 12 && r.get_minute() == 0 && r.get_second() == 0
  } else { true }
}

fn k3_body(nlo: isize, nhi: isize) {
  let n: i64 = kani::any();
  kani::assume(n >= nlo as i64 && n <= nhi as i64);
  let noon: bool = kani::any();
  let jd = JulianDay::from_julian_day(if noon { n as f64 } else { (n as f64) - 0.5 });
  let r = jd.get_solar_time();
  kani::cover!(n == nlo as i64 && noon, "k3 reachable");
  let _ = r;
}
//@SLICES prefix=c01_k3_jd2ymd call=k3_body lo=1721424 hi=5373484 n=64 attr="#[kani::proof_for_contract(JulianDay::get_solar_time)]"

// quick-tier form of K3 (no contract machinery): date -> spec day number -> get_solar_time gives the same date back.
// By lemma C01.V2 (lemma_surjective) every day number in range is jdn of a valid date, so over a complete
// partition this is the inverse conversion for every day number; the quick tier runs a stated subset of slices.
fn k3q_body(ylo: isize, yhi: isize) {
  let y: isize = kani::any();
  let m: usize = kani::any();
  let d: usize = kani::any();
  kani::assume(y >= ylo && y <= yhi);
  kani::assume(spec::valid_date(y as i64, m as i64, d as i64));
  let n = spec::jdn(y as i64, m as i64, d as i64);
  let r = JulianDay::from_julian_day((n as f64) - 0.5).get_solar_time();
  assert!(r.get_year() == y && r.get_month() == m && r.get_day() == d, "day number maps back to the date it came from");
  assert!(r.get_hour() == 0 && r.get_minute() == 0 && r.get_second() == 0, "midnight stays midnight");
  kani::cover!(y == ylo && m == 2 && d == 28, "k3q reachable");
}
//@SLICES prefix=c01_k3q_jd2ymd call=k3q_body lo=1 hi=9999 n=100

// ---- weekday (C07) ---------------------------------------------------------------------------
fn c07_week_body(nlo: isize, nhi: isize) {
  let n: i64 = kani::any();
  kani::assume(n >= nlo as i64 && n <= nhi as i64);
  let w = JulianDay::from_julian_day((n as f64) - 0.5).get_week();
  assert!(w.get_index() as i64 == spec::weekday_of(n), "weekday == (day number + 1) mod 7");
  kani::cover!(n == nlo as i64, "c07 week reachable");
}
//@SLICES prefix=c07_k_week call=c07_week_body lo=1721424 hi=5373484 n=1

// C11: JulianDay::next adds exactly n (f64 addition is exact in this range)
#[kani::proof]
#[kani::stub(alloc::fmt::format, stub_format)]
fn c11_k_jd_next() {
  let k: i64 = kani::any(); let n: isize = kani::any();
  kani::assume(k >= -20000000 && k <= 20000000 && n >= -2000000000 && n <= 2000000000);
  let x = JulianDay::from_julian_day((k as f64) * 0.5);            // any half-integral Julian date
  let r = x.next(n);
  assert!(r.get_day() == ((k + 2 * n as i64) as f64) * 0.5, "next(n) adds exactly n days");
  assert!(r.subtract(x) == n as f64, "subtract is the exact difference");
  kani::cover!(n == -1, "jd_next reachable");
}

// ---- C12: any Julian date inside one day -> valid instant within half a second (thorough tier) ------------
// The date part depends only on the integer day (contract / K3); this harness fixes the day number symbolically in a
// slice and lets the FRACTION range over every f64 in [0, 1): the clock part and the rounding carry are then checked for
// all fractions: fields in range, and |seconds-of-day + 86400*(day carried) - fraction*86400| <= 0.5 (+ f64 resolution).
fn c12_frac_body(nlo: isize, nhi: isize) {
  let n: i64 = kani::any();
  kani::assume(n >= nlo as i64 && n <= nhi as i64);
  let f: f64 = kani::any();
  kani::assume(f >= 0.0 && f < 1.0);
  let jd = (n as f64) - 0.5 + f;
  kani::assume(jd < 5373484.5 - 0.00001);                           // the last second of 9999-12-31 rounds into year 10000
  let r = JulianDay::from_julian_day(jd).get_solar_time();
  assert!(r.get_hour() < 24 && r.get_minute() < 60 && r.get_second() < 60, "clock fields in range");
  let (y, m, d) = (r.get_year() as i64, r.get_month() as i64, r.get_day() as i64);
  assert!(spec::valid_date(y, m, d), "a valid date");
  let dn = spec::jdn(y, m, d);
  assert!(dn == n || dn == n + 1, "the same day or (after rounding up) the next one");
  let got = (dn - n) as f64 * 86400.0 + (r.get_hour() * 3600 + r.get_minute() * 60 + r.get_second()) as f64;
  let want = (jd - ((n as f64) - 0.5)) * 86400.0;
  assert!(got - want <= 0.5001 && want - got <= 0.5001, "within half a second of the Julian date");
  kani::cover!(dn == n + 1, "fraction reachable (carry into the next day)");
}
//@SLICES prefix=c12_k_jd_fraction call=c12_frac_body lo=1721424 hi=5373484 n=16
