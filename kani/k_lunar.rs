// Kani harness module woven (cfg(kani)) as `mod verif_k` at the end of src/tyme/lunar.rs.
#![allow(dead_code, unused_imports)]
use super::*;
use crate::tyme::{Culture, Tyme};
#[path = "@SPEC@"]
pub mod spec;
pub fn stub_format(_a: core::fmt::Arguments<'_>) -> String { String::new() }
//@CYCLES

// C10: the memo codec. from_ym stores [year, month_with_leap, day_count, index_in_year, first_julian_day] as f64 and
// from_cache rebuilds the month from them: every in-range field tuple survives int -> f64 -> int bit-precisely.
#[kani::proof]
#[kani::stub(alloc::fmt::format, stub_format)]
fn c10_k_cache_codec() {
  let y: isize = kani::any(); let m: isize = kani::any(); let dc: usize = kani::any(); let idx: usize = kani::any(); let first: i64 = kani::any();
  kani::assume(y >= -1 && y <= 9999 && m != 0 && m >= -12 && m <= 12 && dc <= 31 && idx <= 12 && first >= 1000000 && first <= 6000000);
  let mut v: Vec<f64> = Vec::new();
  v.push(y as f64); v.push(m as f64); v.push(dc as f64); v.push(idx as f64); v.push(first as f64);
  let r = LunarMonth::from_cache(v);
  assert!(r.get_year() == y && r.get_month_with_leap() == m && r.is_leap() == (m < 0) && r.get_month() as isize == m.abs(), "year / month / leap flag survive the codec");
  assert!(r.get_day_count() == dc && r.get_index_in_year() == idx && r.get_first_julian_day().get_day() == first as f64, "day count / index / first day survive the codec");
  kani::cover!(m == -12 && y == -1, "cache_codec reachable");
}

use std::cell::RefCell;

fn mk_month(y: isize, m: isize, dc: usize, idx: usize, first: i64) -> LunarMonth {
  LunarMonth { year: LunarYear { year: y }, month: m.abs() as usize, leap: m < 0, day_count: dc, index_in_year: idx, first_julian_day: JulianDay::from_julian_day(first as f64) }
}
fn any_lunar_day() -> LunarDay {
  let y: isize = kani::any(); let m: isize = kani::any(); let d: usize = kani::any(); let dc: usize = kani::any(); let idx: usize = kani::any(); let first: i64 = kani::any();
  kani::assume(y >= 0 && y <= 9999 && m != 0 && m >= -12 && m <= 12 && dc >= 29 && dc <= 30 && d >= 1 && d <= dc && idx <= 12 && first >= 1721000 && first <= 5374000);
  LunarDay { month: mk_month(y, m, dc, idx, first), day: d, solar_day: RefCell::new(None), sixty_cycle_day: RefCell::new(None) }
}

// C09: the hour branch index of a lunar hour is floor((hour + 1) / 2)
#[kani::proof]
#[kani::stub(alloc::fmt::format, stub_format)]
fn c09_k_hour_index() {
  let h: usize = kani::any(); let mi: usize = kani::any(); let s: usize = kani::any();
  kani::assume(h < 24 && mi < 60 && s < 60);
  let lh = LunarHour { day: any_lunar_day(), hour: h, minute: mi, second: s, solar_time: RefCell::new(None), sixty_cycle_hour: RefCell::new(None) };
  assert!(lh.get_index_in_day() == (h + 1) / 2 && lh.get_index_in_day() <= 12, "index in day == floor((hour+1)/2)");
  kani::cover!(h == 23, "hour_index reachable");
}

// (LunarHour::next carry arithmetic: the Kani harness did not finish in 12 min (abs / % chains on isize); covered by the
//  execution check c11_linear: a lunar hour moves by exactly n double-hours.)

// C17: six-day star restarts each lunar month at (|month| + day - 2) mod 6; minor Ren (month-1) mod 6 + day - 1
#[kani::proof]
#[kani::stub(alloc::fmt::format, stub_format)]
fn c17_k_six_star() {
  let d = any_lunar_day();
  let m = d.get_month() as i64;
  let want = spec::emod((if m < 0 { -m } else { m }) + d.get_day() as i64 - 2, 6);
  assert!(d.get_six_star().get_index() as i64 == want, "six-day star == (|month| + day - 2) mod 6 (a leap month uses its own number)");
  kani::cover!(m == -12, "six_star reachable (leap month)");
}
#[kani::proof]
#[kani::stub(alloc::fmt::format, stub_format)]
fn c17_k_minor_ren() {
  let d = any_lunar_day();
  let m = d.get_month() as i64;
  let want = spec::emod(spec::emod((if m < 0 { -m } else { m }) - 1, 6) + d.get_day() as i64 - 1, 6);
  assert!(d.get_minor_ren().get_index() as i64 == want, "minor Ren of the day");
  kani::cover!(m == -12, "minor_ren reachable");
}

// C02: lunar -> civil: the civil date of lunar day d of a month whose first day number is `first` has day number
// first + d - 1 (the caller sees only the proved contract of JulianDay::get_solar_time; thorough tier proves that contract)
#[kani::proof]
#[kani::stub(alloc::fmt::format, stub_format)]
#[kani::stub_verified(JulianDay::get_solar_time)]
fn c02_k_lunar_to_solar() {
  let d = any_lunar_day();
  let first = d.get_lunar_month().get_first_julian_day().get_day() as i64;
  kani::assume(first + d.get_day() as i64 - 1 >= 1721424 && first + d.get_day() as i64 - 1 <= 5373484);
  let r = d.get_solar_day();
  assert!(spec::valid_date(r.get_year() as i64, r.get_month() as i64, r.get_day() as i64), "a valid civil date");
  assert!(spec::jdn(r.get_year() as i64, r.get_month() as i64, r.get_day() as i64) == first + d.get_day() as i64 - 1, "day number == first day of the month + day - 1");
  let again = d.get_solar_day();
  assert!(again == r, "the memoised answer is the same answer");
  kani::cover!(d.get_day() == 30, "lunar_to_solar reachable");
}

// C07: LunarDay::get_sixty_cycle feeds stem index and branch index N_first + day - 12 to the name lookup
// (= day number - 11, congruent to day number + 49 modulo 10, 12 and 60). HeavenStem::from_index / EarthBranch::from_index are
// replaced by recording stubs, SixtyCycle::from_name by a constant: the function body itself is untouched. The lookup
// (name of stem ++ name of branch -> pillar index by CRT) is the table fact `pillar_name` of c19_attributes.
use crate::tyme::sixtycycle::verif_k::{rec_stem_from_index, rec_branch_from_index, const_cycle_from_name, REC_STEM, REC_BRANCH, cheap_cycle, faithful_cycle_from_index, faithful_stem_from_index, faithful_branch_from_index};
#[kani::proof]
#[kani::stub(alloc::fmt::format, stub_format)]
#[kani::stub(HeavenStem::from_index, rec_stem_from_index)]
#[kani::stub(EarthBranch::from_index, rec_branch_from_index)]
#[kani::stub(SixtyCycle::from_name, const_cycle_from_name)]
fn c07_k_lunar_day_pillar_args() {
  let d = any_lunar_day();
  let first = d.get_lunar_month().get_first_julian_day().get_day() as i64;
  let _ = d.get_sixty_cycle();
  let want = first + d.get_day() as i64 - 12;
  assert!(unsafe { REC_STEM } as i64 == want && unsafe { REC_BRANCH } as i64 == want, "stem and branch index == first day number + day - 12");
  assert!(spec::emod(want, 60) == spec::pillar_of(first + d.get_day() as i64 - 1), "which is the pillar (day number + 49) mod 60");
  kani::cover!(d.get_day() == 1, "pillar_args reachable");
}


// ---- C09: hour pillar: the (stem, branch) indices fed to the name lookup, for all 60 day pillars x 24 hours -------------
static mut SYM_DAY_PILLAR: isize = 0;
fn stub_day_pillar(_d: &LunarDay) -> SixtyCycle { cheap_cycle(unsafe { SYM_DAY_PILLAR }) }
#[kani::proof]
#[kani::unwind(61)]
#[kani::stub(alloc::fmt::format, stub_format)]
#[kani::stub(LunarDay::get_sixty_cycle, stub_day_pillar)]
#[kani::stub(SixtyCycle::from_index, faithful_cycle_from_index)]
#[kani::stub(HeavenStem::from_index, faithful_stem_from_index)]
#[kani::stub(EarthBranch::from_index, faithful_branch_from_index)]
#[kani::stub(SixtyCycle::from_name, const_cycle_from_name)]
fn c09_k_hour_pillar_args() {
  let p: isize = kani::any(); let h: usize = kani::any();
  kani::assume(p >= 0 && p < 60 && h < 24);
  unsafe { SYM_DAY_PILLAR = p; }
  let lh = LunarHour { day: any_lunar_day(), hour: h, minute: 0, second: 0, solar_time: RefCell::new(None), sixty_cycle_hour: RefCell::new(None) };
  let _ = lh.get_sixty_cycle();
  let hb = ((h as i64 + 1) / 2) % 12;
  let dp = spec::emod(p as i64 + if h >= 23 { 1 } else { 0 }, 60);          // from 23:00 the next day's pillar
  assert!(unsafe { REC_BRANCH } as i64 == hb, "hour branch == floor((hour+1)/2) mod 12");
  assert!(spec::emod(unsafe { REC_STEM } as i64, 10) == spec::emod(spec::five_rats(dp % 10) + hb, 10), "hour stem by the Five-Rats rule from the (rolled) day stem");
  kani::cover!(h == 23 && p == 59, "hour_pillar reachable");
}

// ---- C08: lunar month pillar (Five Tigers): indices fed to the name lookup -------------------------------------------------
#[kani::proof]
#[kani::unwind(61)]
#[kani::stub(alloc::fmt::format, stub_format)]
#[kani::stub(SixtyCycle::from_index, faithful_cycle_from_index)]
#[kani::stub(HeavenStem::from_index, faithful_stem_from_index)]
#[kani::stub(EarthBranch::from_index, faithful_branch_from_index)]
#[kani::stub(SixtyCycle::from_name, const_cycle_from_name)]
fn c08_k_month_pillar_args() {
  let y: isize = kani::any(); let idx: usize = kani::any();
  kani::assume(y >= 0 && y <= 9999 && idx <= 12);
  let m = mk_month(y, 1, 30, idx, 2451545);
  let _ = m.get_sixty_cycle();
  let ys = spec::emod(y as i64 - 4, 60) % 10;
  assert!(spec::emod(unsafe { REC_BRANCH } as i64, 12) == spec::emod(2 + idx as i64, 12), "month branch: Yin for the first position, then one per position");
  assert!(spec::emod(unsafe { REC_STEM } as i64, 10) == spec::emod(spec::five_tigers(ys) + idx as i64, 10), "month stem by the Five-Tigers rule from the year stem");
  kani::cover!(idx == 12, "month_pillar reachable");
}
