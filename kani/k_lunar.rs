// Kani harness module woven (cfg(kani)) as `mod verif_k` at the end of src/tyme/lunar.rs.
#![allow(dead_code, unused_imports)]
use super::*;
use crate::tyme::{Culture, Tyme};
#[path = "@SPEC@"]
pub mod spec;
pub fn stub_format(_a: core::fmt::Arguments<'_>) -> String { String::new() }
//@CYCLES

// C10: the memo codec. from_ym stores [year, month_with_leap, day_count, index_in_year, first_julian_day] as f64 and
// from_cache rebuilds the month from them: every in-range field tuple survives int -> f64 -> int bit-precisely.
#[kani::proof]
#[kani::stub(alloc::fmt::format, stub_format)]
fn c10_k_cache_codec() {
  let y: isize = kani::any(); let m: isize = kani::any(); let dc: usize = kani::any(); let idx: usize = kani::any(); let first: i64 = kani::any();
  kani::assume(y >= -1 && y <= 9999 && m != 0 && m >= -12 && m <= 12 && dc <= 31 && idx <= 12 && first >= 1000000 && first <= 6000000);
  let mut v: Vec<f64> = Vec::new();
  v.push(y as f64); v.push(m as f64); v.push(dc as f64); v.push(idx as f64); v.push(first as f64);
  let r = LunarMonth::from_cache(v);
  assert!(r.get_year() == y && r.get_month_with_leap() == m && r.is_leap() == (m < 0) && r.get_month() as isize == m.abs(), "year / month / leap flag survive the codec");
  assert!(r.get_day_count() == dc && r.get_index_in_year() == idx && r.get_first_julian_day().get_day() == first as f64, "day count / index / first day survive the codec");
  kani::cover!(m == -12 && y == -1, "cache_codec reachable");
}

use std::cell::RefCell;

fn mk_month(y: isize, m: isize, dc: usize, idx: usize, first: i64) -> LunarMonth {
  LunarMonth { year: LunarYear { year: y }, month: m.abs() as usize, leap: m < 0, day_count: dc, index_in_year: idx, first_julian_day: JulianDay::from_julian_day(first as f64) }
}
fn any_lunar_day() -> LunarDay {
  let y: isize = kani::any(); let m: isize = kani::any(); let d: usize = kani::any(); let dc: usize = kani::any(); let idx: usize = kani::any(); let first: i64 = kani::any();
  kani::assume(y >= 0 && y <= 9999 && m != 0 && m >= -12 && m <= 12 && dc >= 29 && dc <= 30 && d >= 1 && d <= dc && idx <= 12 && first >= 1721000 && first <= 5374000);
  LunarDay { month: mk_month(y, m, dc, idx, first), day: d, solar_day: RefCell::new(None), sixty_cycle_day: RefCell::new(None) }
}

// C09: the hour branch index of a lunar hour is floor((hour + 1) / 2)
#[kani::proof]
#[kani::stub(alloc::fmt::format, stub_format)]
fn c09_k_hour_index() {
  let h: usize = kani::any(); let mi: usize = kani::any(); let s: usize = kani::any();
  kani::assume(h < 24 && mi < 60 && s < 60);
  let lh = LunarHour { day: any_lunar_day(), hour: h, minute: mi, second: s, solar_time: RefCell::new(None), sixty_cycle_hour: RefCell::new(None) };
  assert!(lh.get_index_in_day() == (h + 1) / 2 && lh.get_index_in_day() <= 12, "index in day == floor((hour+1)/2)");
  kani::cover!(h == 23, "hour_index reachable");
}

// (LunarHour::next carry arithmetic: the Kani harness did not finish in 12 min (abs / % chains on isize); covered by the
//  execution check c11_linear: a lunar hour moves by exactly n double-hours.)

// C17: six-day star restarts each lunar month at (|month| + day - 2) mod 6; minor Ren (month-1) mod 6 + day - 1
#[kani::proof]
#[kani::stub(alloc::fmt::format, stub_format)]
fn c17_k_six_star() {
  let d = any_lunar_day();
  let m = d.get_month() as i64;
  let want = spec::emod((if m < 0 { -m } else { m }) + d.get_day() as i64 - 2, 6);
  assert!(d.get_six_star().get_index() as i64 == want, "six-day star == (|month| + day - 2) mod 6 (a leap month uses its own number)");
  kani::cover!(m == -12, "six_star reachable (leap month)");
}
#[kani::proof]
#[kani::stub(alloc::fmt::format, stub_format)]
fn c17_k_minor_ren() {
  let d = any_lunar_day();
  let m = d.get_month() as i64;
  let want = spec::emod(spec::emod((if m < 0 { -m } else { m }) - 1, 6) + d.get_day() as i64 - 1, 6);
  assert!(d.get_minor_ren().get_index() as i64 == want, "minor Ren of the day");
  kani::cover!(m == -12, "minor_ren reachable");
}
