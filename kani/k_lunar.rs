// Kani harness module woven (cfg(kani)) as `mod verif_k` at the end of src/tyme/lunar.rs.
#![allow(dead_code, unused_imports)]
use super::*;
use crate::tyme::{Culture, Tyme};
#[path = "@SPEC@"]
pub mod spec;
pub fn stub_format(_a: core::fmt::Arguments<'_>) -> String { String::new() }
//@CYCLES

// C10: the memo codec. from_ym stores [year, month_with_leap, day_count, index_in_year, first_julian_day] as f64 and
// from_cache rebuilds the month from them: every in-range field tuple survives int -> f64 -> int bit-precisely.
#[kani::proof]
#[kani::stub(alloc::fmt::format, stub_format)]
fn c10_k_cache_codec() {
  let y: isize = kani::any(); let m: isize = kani::any(); let dc: usize = kani::any(); let idx: usize = kani::any(); let first: i64 = kani::any();
  kani::assume(y >= -1 && y <= 9999 && m != 0 && m >= -12 && m <= 12 && dc <= 31 && idx <= 12 && first >= 1000000 && first <= 6000000);
  let mut v: Vec<f64> = Vec::new();
  v.push(y as f64); v.push(m as f64); v.push(dc as f64); v.push(idx as f64); v.push(first as f64);
  let r = LunarMonth::from_cache(v);
  assert!(r.get_year() == y && r.get_month_with_leap() == m && r.is_leap() == (m < 0) && r.get_month() as isize == m.abs(), "year / month / leap flag survive the codec");
  assert!(r.get_day_count() == dc && r.get_index_in_year() == idx && r.get_first_julian_day().get_day() == first as f64, "day count / index / first day survive the codec");
  kani::cover!(m == -12 && y == -1, "cache_codec reachable");
}

use std::cell::RefCell;

fn mk_month(y: isize, m: isize, dc: usize, idx: usize, first: i64) -> LunarMonth {
  LunarMonth { year: LunarYear { year: y }, month: m.abs() as usize, leap: m < 0, day_count: dc, index_in_year: idx, first_julian_day: JulianDay::from_julian_day(first as f64) }
}
fn any_lunar_day() -> LunarDay {
  let y: isize = kani::any(); let m: isize = kani::any(); let d: usize = kani::any(); let dc: usize = kani::any(); let idx: usize = kani::any(); let first: i64 = kani::any();
  kani::assume(y >= 0 && y <= 9999 && m != 0 && m >= -12 && m <= 12 && dc >= 29 && dc <= 30 && d >= 1 && d <= dc && idx <= 12 && first >= 1721000 && first <= 5374000);
  LunarDay { month: mk_month(y, m, dc, idx, first), day: d, solar_day: RefCell::new(None), sixty_cycle_day: RefCell::new(None) }
}

// C09: the hour branch index of a lunar hour is floor((hour + 1) / 2)
#[kani::proof]
#[kani::stub(alloc::fmt::format, stub_format)]
fn c09_k_hour_index() {
  let h: usize = kani::any(); let mi: usize = kani::any(); let s: usize = kani::any();
  kani::assume(h < 24 && mi < 60 && s < 60);
  let lh = LunarHour { day: any_lunar_day(), hour: h, minute: mi, second: s, solar_time: RefCell::new(None), sixty_cycle_hour: RefCell::new(None) };
  assert!(lh.get_index_in_day() == (h + 1) / 2 && lh.get_index_in_day() <= 12, "index in day == floor((hour+1)/2)");
  kani::cover!(h == 23, "hour_index reachable");
}

// (LunarHour::next carry arithmetic: the Kani harness did not finish in 12 min (abs / % chains on isize); covered by the
//  execution check c11_linear: a lunar hour moves by exactly n double-hours.)

// C17: six-day star restarts each lunar month at (|month| + day - 2) mod 6; minor Ren (month-1) mod 6 + day - 1
#[kani::proof]
#[kani::stub(alloc::fmt::format, stub_format)]
fn c17_k_six_star() {
  let d = any_lunar_day();
  let m = d.get_month() as i64;
  let want = spec::emod((if m < 0 { -m } else { m }) + d.get_day() as i64 - 2, 6);
  assert!(d.get_six_star().get_index() as i64 == want, "six-day star == (|month| + day - 2) mod 6 (a leap month uses its own number)");
  kani::cover!(m == -12, "six_star reachable (leap month)");
}
#[kani::proof]
#[kani::stub(alloc::fmt::format, stub_format)]
fn c17_k_minor_ren() {
  let d = any_lunar_day();
  let m = d.get_month() as i64;
  let want = spec::emod(spec::emod((if m < 0 { -m } else { m }) - 1, 6) + d.get_day() as i64 - 1, 6);
  assert!(d.get_minor_ren().get_index() as i64 == want, "minor Ren of the day");
  kani::cover!(m == -12, "minor_ren reachable");
}

// C02: lunar -> civil: the civil date of lunar day d of a month whose first day number is `first` has day number
// first + d - 1 (the caller sees only the proved contract of JulianDay::get_solar_time; thorough tier proves that contract)
#[kani::proof]
#[kani::stub(alloc::fmt::format, stub_format)]
#[kani::stub_verified(JulianDay::get_solar_time)]
fn c02_k_lunar_to_solar() {
  let d = any_lunar_day();
  let first = d.get_lunar_month().get_first_julian_day().get_day() as i64;
  kani::assume(first + d.get_day() as i64 - 1 >= 1721424 && first + d.get_day() as i64 - 1 <= 5373484);
  let r = d.get_solar_day();
  assert!(spec::valid_date(r.get_year() as i64, r.get_month() as i64, r.get_day() as i64), "a valid civil date");
  assert!(spec::jdn(r.get_year() as i64, r.get_month() as i64, r.get_day() as i64) == first + d.get_day() as i64 - 1, "day number == first day of the month + day - 1");
  let again = d.get_solar_day();
  assert!(again == r, "the memoised answer is the same answer");
  kani::cover!(d.get_day() == 30, "lunar_to_solar reachable");
}

// C07: LunarDay::get_sixty_cycle feeds stem index and branch index N_first + day - 12 to the name lookup
// (= day number - 11, congruent to day number + 49 modulo 10, 12 and 60). HeavenStem::from_index / EarthBranch::from_index are
// replaced by recording stubs, SixtyCycle::from_name by a constant: the function body itself is untouched. The lookup
// (name of stem ++ name of branch -> pillar index by CRT) is the table fact `pillar_name` of c19_attributes.
use crate::tyme::sixtycycle::verif_k::{rec_stem_from_index, rec_branch_from_index, const_cycle_from_name, REC_STEM, REC_BRANCH, cheap_cycle, faithful_cycle_from_index, faithful_stem_from_index, faithful_branch_from_index};
#[kani::proof]
#[kani::stub(alloc::fmt::format, stub_format)]
#[kani::stub(HeavenStem::from_index, rec_stem_from_index)]
#[kani::stub(EarthBranch::from_index, rec_branch_from_index)]
#[kani::stub(SixtyCycle::from_name, const_cycle_from_name)]
fn c07_k_lunar_day_pillar_args() {
  let d = any_lunar_day();
  let first = d.get_lunar_month().get_first_julian_day().get_day() as i64;
  let _ = d.get_sixty_cycle();
  let want = first + d.get_day() as i64 - 12;
  assert!(unsafe { REC_STEM } as i64 == want && unsafe { REC_BRANCH } as i64 == want, "stem and branch index == first day number + day - 12");
  assert!(spec::emod(want, 60) == spec::pillar_of(first + d.get_day() as i64 - 1), "which is the pillar (day number + 49) mod 60");
  kani::cover!(d.get_day() == 1, "pillar_args reachable");
}


// ---- C09: hour pillar: the (stem, branch) indices fed to the name lookup, for all 60 day pillars x 24 hours -------------
static mut SYM_DAY_PILLAR: isize = -7601; // non-zero start: see the note on statics in k_sixtycycle.rs
fn stub_day_pillar(_d: &LunarDay) -> SixtyCycle { cheap_cycle(unsafe { SYM_DAY_PILLAR }) }
#[kani::proof]
#[kani::unwind(61)]
#[kani::stub(alloc::fmt::format, stub_format)]
#[kani::stub(LunarDay::get_sixty_cycle, stub_day_pillar)]
#[kani::stub(SixtyCycle::from_index, faithful_cycle_from_index)]
#[kani::stub(HeavenStem::from_index, faithful_stem_from_index)]
#[kani::stub(EarthBranch::from_index, faithful_branch_from_index)]
#[kani::stub(SixtyCycle::from_name, const_cycle_from_name)]
fn c09_k_hour_pillar_args() {
  let p: isize = kani::any(); let h: usize = kani::any();
  kani::assume(p >= 0 && p < 60 && h < 24);
  unsafe { SYM_DAY_PILLAR = p; }
  let lh = LunarHour { day: any_lunar_day(), hour: h, minute: 0, second: 0, solar_time: RefCell::new(None), sixty_cycle_hour: RefCell::new(None) };
  let _ = lh.get_sixty_cycle();
  let hb = ((h as i64 + 1) / 2) % 12;
  let dp = spec::emod(p as i64 + if h >= 23 { 1 } else { 0 }, 60);          // from 23:00 the next day's pillar
  assert!(unsafe { REC_BRANCH } as i64 == hb, "hour branch == floor((hour+1)/2) mod 12");
  assert!(spec::emod(unsafe { REC_STEM } as i64, 10) == spec::emod(spec::five_rats(dp % 10) + hb, 10), "hour stem by the Five-Rats rule from the (rolled) day stem");
  kani::cover!(h == 23 && p == 59, "hour_pillar reachable");
}

// ---- C08: lunar month pillar (Five Tigers): indices fed to the name lookup -------------------------------------------------
#[kani::proof]
#[kani::unwind(61)]
#[kani::stub(alloc::fmt::format, stub_format)]
#[kani::stub(SixtyCycle::from_index, faithful_cycle_from_index)]
#[kani::stub(HeavenStem::from_index, faithful_stem_from_index)]
#[kani::stub(EarthBranch::from_index, faithful_branch_from_index)]
#[kani::stub(SixtyCycle::from_name, const_cycle_from_name)]
fn c08_k_month_pillar_args() {
  let y: isize = kani::any(); let idx: usize = kani::any();
  kani::assume(y >= 0 && y <= 9999 && idx <= 12);
  let m = mk_month(y, 1, 30, idx, 2451545);
  let _ = m.get_sixty_cycle();
  let ys = spec::emod(y as i64 - 4, 60) % 10;
  assert!(spec::emod(unsafe { REC_BRANCH } as i64, 12) == spec::emod(2 + idx as i64, 12), "month branch: Yin for the first position, then one per position");
  assert!(spec::emod(unsafe { REC_STEM } as i64, 10) == spec::emod(spec::five_tigers(ys) + idx as i64, 10), "month stem by the Five-Tigers rule from the year stem");
  kani::cover!(idx == 12, "month_pillar reachable");
}

// C13: construction accepts exactly the components inside the container. LunarMonth::from_ym (cache + astronomy) is
// replaced by an arbitrary well-formed month of the requested (year, month) so that the body of LunarDay::new is what is proved.
static mut REC_DC: usize = 7602;
fn stub_month_from_ym(y: isize, m: isize) -> LunarMonth {
  let dc: usize = kani::any(); let idx: usize = kani::any(); let first: i64 = kani::any();
  kani::assume(dc >= 29 && dc <= 30 && idx <= 12 && first >= 1721000 && first <= 5374000);
  unsafe { REC_DC = dc; }
  mk_month(y, m, dc, idx, first)
}
#[kani::proof]
#[kani::stub(alloc::fmt::format, stub_format)]
#[kani::stub(LunarMonth::from_ym, stub_month_from_ym)]
fn c13_k_lunar_day_accept() {
  let y: isize = kani::any(); let m: isize = kani::any(); let d: usize = kani::any();
  kani::assume(y >= -1 && y <= 9999 && m != 0 && m >= -12 && m <= 12);
  let r = LunarDay::new(y, m, d);
  let dc = unsafe { REC_DC };
  assert!(r.is_ok() == (d >= 1 && d <= dc), "a lunar day is accepted exactly when 1 <= day <= day count of its month");
  if let Ok(ref v) = r {
    assert!(v.get_day() == d && v.get_year() == y && v.get_lunar_month().get_month_with_leap() == m, "components are stored as given");
  }
  core::mem::forget(r); // harness side only: the drop glue of Result<LunarDay, String> is what CBMC cannot finish
  kani::cover!(d == 30 && dc == 29, "lunar_day_accept reachable (day 30 of a short month refused)");
}

static mut REC_YMD: (isize, isize, usize) = (-7603, -7604, 7605);
fn stub_day_from_ymd(y: isize, m: isize, d: usize) -> LunarDay {
  unsafe { REC_YMD = (y, m, d); }
  LunarDay { month: mk_month(y, m, 30, 0, 2400000), day: d, solar_day: RefCell::new(None), sixty_cycle_day: RefCell::new(None) }
}
#[kani::proof]
#[kani::stub(alloc::fmt::format, stub_format)]
#[kani::stub(LunarDay::from_ymd, stub_day_from_ymd)]
fn c13_k_lunar_hour_accept() {
  let y: isize = kani::any(); let m: isize = kani::any(); let d: usize = kani::any();
  let h: usize = kani::any(); let mi: usize = kani::any(); let s: usize = kani::any();
  kani::assume(y >= -1 && y <= 9999 && m != 0 && m >= -12 && m <= 12 && d >= 1 && d <= 30);
  let r = LunarHour::new(y, m, d, h, mi, s);
  assert!(r.is_ok() == (h <= 23 && mi <= 59 && s <= 59), "a lunar hour is accepted exactly when hour <= 23, minute <= 59, second <= 59");
  if let Ok(ref v) = r {
    assert!(v.get_hour() == h && v.get_minute() == mi && v.get_second() == s && unsafe { REC_YMD } == (y, m, d), "components are stored as given; the day is built from the same (year, month, day)");
  }
  core::mem::forget(r);
  kani::cover!(h == 23 && mi == 59 && s == 59, "lunar_hour_accept reachable");
}

// C13: LunarDay::get_hours asks for exactly the 13 hour slots 0:00, 1:00, 3:00, ..., 23:00 of its own (year, month, day)
static mut REC_HOURS: [usize; 16] = [99; 16];
static mut REC_HN: usize = 7606;
static mut REC_HBAD: usize = 7607;
fn stub_hour_from_ymd_hms(y: isize, m: isize, d: usize, h: usize, mi: usize, s: usize) -> LunarHour {
  unsafe {
    if REC_HN < 16 { REC_HOURS[REC_HN] = h; }
    REC_HN += 1;
    if (y, m, d) != REC_YMD || mi != 0 || s != 0 { REC_HBAD = 1; }
  }
  LunarHour { day: LunarDay { month: mk_month(y, m, 30, 0, 2400000), day: d, solar_day: RefCell::new(None), sixty_cycle_day: RefCell::new(None) }, hour: h, minute: mi, second: s, solar_time: RefCell::new(None), sixty_cycle_hour: RefCell::new(None) }
}
#[kani::proof]
#[kani::unwind(15)]
#[kani::stub(alloc::fmt::format, stub_format)]
#[kani::stub(LunarHour::from_ymd_hms, stub_hour_from_ymd_hms)]
fn c13_k_lunar_day_hours() {
  let d = any_lunar_day();
  unsafe { REC_YMD = (d.get_year(), d.get_month(), d.get_day()); REC_HN = 0; REC_HBAD = 0; }
  let l = d.get_hours();
  let want: [usize; 13] = [0, 1, 3, 5, 7, 9, 11, 13, 15, 17, 19, 21, 23];
  assert!(l.len() == 13 && unsafe { REC_HN } == 13, "13 hour slots per lunar day");
  let mut i = 0;
  while i < 13 {
    assert!(unsafe { REC_HOURS[i] } == want[i] && l[i].get_hour() == want[i], "slots are 0:00, 1:00, 3:00, ..., 23:00 in order");
    i += 1;
  }
  core::mem::forget(l);
  assert!(unsafe { REC_HBAD } == 0, "every slot belongs to this day (same year, month, day; minute and second 0)");
  kani::cover!(d.get_day() == 30, "lunar_day_hours reachable");
}

// C11/C09: LunarHour::next(n) carries whole days exactly: hour + 2n == 24 * days + hour', 0 <= hour' < 24, where `days` is what
// it hands to LunarDay::next and hour' what it hands to the constructor (both replaced by recording stubs).
static mut REC_DAYS: isize = -7608;
static mut REC_H: usize = 99;
fn stub_lunar_day_next(d: &LunarDay, n: isize) -> LunarDay { unsafe { REC_DAYS = n; } d.clone() }
fn stub_hour_ctor(y: isize, m: isize, d: usize, h: usize, mi: usize, s: usize) -> LunarHour {
  unsafe { REC_H = h; }
  LunarHour { day: LunarDay { month: mk_month(y, m, 30, 0, 2400000), day: d, solar_day: RefCell::new(None), sixty_cycle_day: RefCell::new(None) }, hour: h, minute: mi, second: s, solar_time: RefCell::new(None), sixty_cycle_hour: RefCell::new(None) }
}
#[kani::proof]
#[kani::stub(alloc::fmt::format, stub_format)]
#[kani::stub(<LunarDay as Tyme>::next, stub_lunar_day_next)]
#[kani::stub(LunarHour::from_ymd_hms, stub_hour_ctor)]
fn c11_k_lunar_hour_carry() {
  let h: usize = kani::any(); let mi: usize = kani::any(); let s: usize = kani::any(); let n: isize = kani::any();
  kani::assume(h < 24 && mi < 60 && s < 60 && n != 0 && n > -(1isize << 40) && n < (1isize << 40));
  let lh = LunarHour { day: any_lunar_day(), hour: h, minute: mi, second: s, solar_time: RefCell::new(None), sixty_cycle_hour: RefCell::new(None) };
  let r = lh.next(n);
  let (days, h2) = unsafe { (REC_DAYS as i128, REC_H as i128) };
  assert!(h2 < 24 && (h as i128) + 2 * (n as i128) == 24 * days + h2, "hour + 2n == 24 * (days carried) + new hour, 0 <= new hour < 24");
  assert!(r.get_minute() == mi && r.get_second() == s, "minute and second are kept");
  core::mem::forget(r); core::mem::forget(lh);
  kani::cover!(n == -13 && h == 1, "lunar_hour_carry reachable (backward across midnight)");
}


// constructors for harnesses in other modules (private fields)
pub fn mk_month_pub(y: isize, m: isize) -> LunarMonth { mk_month(y, m, 30, 0, 2400000) }
pub fn mk_lunar_day(y: isize, m: isize, d: usize) -> LunarDay { LunarDay { month: mk_month(y, m, 30, 0, 2400000), day: d, solar_day: RefCell::new(None), sixty_cycle_day: RefCell::new(None) } }
pub fn mk_lunar_hour(y: isize, m: isize, d: usize, h: usize, mi: usize, s: usize) -> LunarHour { LunarHour { day: mk_lunar_day(y, m, d), hour: h, minute: mi, second: s, solar_time: RefCell::new(None), sixty_cycle_hour: RefCell::new(None) } }

// ---- C14 (lunar weeks): same arithmetic as the civil weeks, on the real bodies; the weekday of the first day of the lunar
// month is an arbitrary answer of a stub, LunarDay::from_ymd / next are recording stubs.
use crate::tyme::culture::Week;
use crate::tyme::jd::JulianDay;
static mut LW_W: isize = -7801;
static mut LW_N: isize = -7802;
static mut LW_FROM: (isize, isize, usize) = (-7803, -7804, 7805);
fn lw_jd_get_week(_j: &JulianDay) -> Week { Week::from_index(unsafe { LW_W }) }
fn lw_day_get_week(d: &LunarDay) -> Week { unsafe { LW_FROM = (d.get_year(), d.get_lunar_month().get_month_with_leap(), d.get_day()); } Week::from_index(unsafe { LW_W }) }
fn lw_day_next(d: &LunarDay, n: isize) -> LunarDay { unsafe { LW_N = n; } d.clone() }

#[kani::proof]
#[kani::unwind(9)]
#[kani::stub(alloc::fmt::format, stub_format)]
#[kani::stub(JulianDay::get_week, lw_jd_get_week)]
fn c14_k_lunar_week_count() {
  let y: isize = kani::any(); let m: isize = kani::any(); let dc: usize = kani::any(); let start: usize = kani::any(); let w: isize = kani::any();
  kani::assume(y >= 0 && y <= 9999 && m != 0 && m >= -12 && m <= 12 && dc >= 29 && dc <= 30 && start <= 6 && w >= 0 && w <= 6);
  unsafe { LW_W = w; }
  let c = mk_month(y, m, dc, 0, 2400000).get_week_count(start);
  let off = spec::emod(w as i64 - start as i64, 7);
  assert!(c as i64 == (off + dc as i64 + 6) / 7, "lunar week count == ceil((offset of the first day in its week + month length) / 7)");
  kani::cover!(c == 6, "lunar_week_count reachable (six weeks)");
}

#[kani::proof]
#[kani::unwind(9)]
#[kani::stub(alloc::fmt::format, stub_format)]
#[kani::stub(LunarDay::from_ymd, stub_day_from_ymd)]
#[kani::stub(LunarDay::get_week, lw_day_get_week)]
#[kani::stub(<LunarDay as Tyme>::next, lw_day_next)]
fn c14_k_lunar_week_first_day() {
  let y: isize = kani::any(); let m: isize = kani::any(); let start: isize = kani::any(); let w: isize = kani::any(); let i: usize = kani::any();
  kani::assume(y >= 0 && y <= 9999 && m != 0 && m >= -12 && m <= 12 && start >= 0 && start <= 6 && w >= 0 && w <= 6 && i <= 5);
  unsafe { LW_W = w; }
  let wk = LunarWeek { parent: crate::tyme::AbstractTyme::new(), month: mk_month(y, m, 30, 0, 2400000), index: i, start: Week::from_index(start) };
  let r = wk.get_first_day();
  core::mem::forget(r);
  assert!(unsafe { LW_N } as i64 == 7 * i as i64 - spec::emod((w - start) as i64, 7), "first day of lunar week i == first of the month + 7i - (offset of the first in its week)");
  assert!(unsafe { REC_YMD } == (y, m, 1) && unsafe { LW_FROM } == (y, m, 1), "counted from day 1 of the same lunar month (leap flag kept)");
  kani::cover!(m == -4 && i == 5, "lunar_week_first_day reachable (leap month)");
}

// ---- C03: LunarMonth::new on the real body - which (year, month) are accepted and which position in the year the month
// gets. The leap month of the year (packed table), the solstice and the new-moon instants (astronomy, L-NEW) are ARBITRARY
// answers of stubs, so the index rule is proved for every leap configuration.
static mut NM_LEAP: usize = 7811;      // leap month answered for the requested year
static mut NM_PREV_LEAP: usize = 7812; // leap month answered for the year before
static mut NM_YEAR: isize = -7813;
fn nm_get_leap_month(y: &LunarYear) -> usize { unsafe { if y.get_year() == NM_YEAR { NM_LEAP } else { NM_PREV_LEAP } } }
fn nm_term_from_index(year: isize, index: isize) -> SolarTerm { crate::tyme::solar::verif_k::mk_term(year, index, 2451545.0) }
fn nm_calc_shuo(_jd: f64) -> f64 { let v: f64 = kani::any(); kani::assume(v > -2000000.0 && v < 4000000.0); v }
#[kani::proof]
#[kani::unwind(26)]
#[kani::stub(alloc::fmt::format, stub_format)]
#[kani::stub(LunarYear::get_leap_month, nm_get_leap_month)]
#[kani::stub(SolarTerm::from_index, nm_term_from_index)]
#[kani::stub(ShouXingUtil::calc_shuo, nm_calc_shuo)]
fn c03_k_month_new_index() {
  let y: isize = kani::any(); let m: isize = kani::any(); let leap: usize = kani::any(); let pleap: usize = kani::any();
  kani::assume(y >= 0 && y <= 9999 && m >= -14 && m <= 14 && leap <= 12 && pleap <= 12);
  unsafe { NM_YEAR = y; NM_LEAP = leap; NM_PREV_LEAP = pleap; }
  let r = LunarMonth::new(y, m);
  let am = if m < 0 { -m } else { m };
  let legal = m != 0 && am <= 12 && (m > 0 || am as usize == leap);
  assert!(r.is_ok() == legal, "accepted exactly: month 1..12, or minus the leap month of that year");
  if let Ok(ref v) = r {
    let want_index = am - 1 + if m < 0 || (leap > 0 && am as usize > leap) { 1 } else { 0 };
    assert!(v.get_index_in_year() as isize == want_index, "position in the year: month - 1, plus one for the leap month itself and every month after it");
    assert!(v.get_year() == y && v.get_month() as isize == am && v.is_leap() == (m < 0) && v.get_month_with_leap() == m, "year / month / leap flag stored as given");
  }
  core::mem::forget(r);
  kani::cover!(m == -12 && leap == 12, "month_new_index reachable (leap twelfth month)");
}

// ---- C02: the order and equality of lunar days follow (year, position of the month in the year, day) - a leap month sorts
// directly after the month whose number it carries. Both days are arbitrary well-formed days; months of the same year
// share that year's leap month L (arbitrary 0..12) and have index = |month| - 1, plus one for the leap month and the months after it.
fn any_wf_lunar_day(y: isize, leap_of_year: usize) -> (LunarDay, i64) {
  let m: isize = kani::any(); let d: usize = kani::any(); let dc: usize = kani::any(); let first: i64 = kani::any();
  kani::assume(m != 0 && m >= -12 && m <= 12 && dc >= 29 && dc <= 30 && d >= 1 && d <= dc && first >= 1721000 && first <= 5374000);
  let am = if m < 0 { -m } else { m } as usize;
  kani::assume(m > 0 || am == leap_of_year);
  let idx = am - 1 + if m < 0 || (leap_of_year > 0 && am > leap_of_year) { 1 } else { 0 };
  (LunarDay { month: mk_month(y, m, dc, idx, first), day: d, solar_day: RefCell::new(None), sixty_cycle_day: RefCell::new(None) }, (y as i64 * 16 + idx as i64) * 32 + d as i64)
}
#[kani::proof]
#[kani::stub(alloc::fmt::format, stub_format)]
fn c02_k_lunar_order() {
  let ya: isize = kani::any(); let yb: isize = kani::any(); let la: usize = kani::any(); let lb: usize = kani::any();
  kani::assume(ya >= -1 && ya <= 9999 && yb >= -1 && yb <= 9999 && la <= 12 && lb <= 12 && (ya != yb || la == lb));
  let (a, ka) = any_wf_lunar_day(ya, la);
  let (b, kb) = any_wf_lunar_day(yb, lb);
  assert!(a.is_before(b.clone()) == (ka < kb), "is_before == order of (year, month position in the year, day)");
  assert!(a.is_after(b.clone()) == (ka > kb), "is_after == the reverse order");
  assert!((a == b) == (ka == kb), "equal exactly when year, month (with leap flag) and day are equal");
  kani::cover!(ya == yb && a.get_month() == -b.get_month() && ka > kb, "lunar_order reachable (a leap month after its namesake)");
  core::mem::forget(a); core::mem::forget(b);
}
// (LunarHour::is_before / is_after clone and drop lunar days inside the function under test - the drop glue CBMC cannot
//  finish, see DESIGN 8.2 - so their order stays an execution check: c02_lunar_side.)

// ---- C02 / C11: LunarDay::next(n) goes through the civil calendar: the day's civil date (c02_k_lunar_to_solar) stepped by
// exactly n (c01_k5_next) and converted back (verus c02_lunar_conv); next(0) is the day itself.
static mut LN_N: isize = -7941;
static mut LN_CALLS: (usize, usize, usize) = (7942, 7943, 7944);
static mut LN_BACK: (isize, usize, usize) = (-7945, 7946, 7947);
fn ln_get_solar_day(_d: &LunarDay) -> SolarDay { unsafe { LN_CALLS.0 += 1; } crate::tyme::solar::verif_k::mk_day(2000, 1, 1) }
fn ln_day_next(d: &SolarDay, n: isize) -> SolarDay { unsafe { LN_CALLS.1 += 1; LN_N = n; if (d.get_year(), d.get_month(), d.get_day()) != (2000, 1, 1) { LN_CALLS.1 += 10; } } crate::tyme::solar::verif_k::mk_day(4321, 7, 9) }
fn ln_get_lunar_day(d: &SolarDay) -> LunarDay { unsafe { LN_CALLS.2 += 1; LN_BACK = (d.get_year(), d.get_month(), d.get_day()); } mk_lunar_day(4321, 6, 5) }
#[kani::proof]
#[kani::stub(alloc::fmt::format, stub_format)]
#[kani::stub(LunarDay::get_solar_day, ln_get_solar_day)]
#[kani::stub(<SolarDay as Tyme>::next, ln_day_next)]
#[kani::stub(SolarDay::get_lunar_day, ln_get_lunar_day)]
fn c02_k_lunar_day_next() {
  let d = any_lunar_day();
  let n: isize = kani::any();
  unsafe { LN_CALLS = (0, 0, 0); }
  let r = d.next(n);
  if n == 0 {
    assert!(r == d && unsafe { LN_CALLS } == (0, 0, 0), "next(0) is the day itself");
  } else {
    assert!(unsafe { LN_CALLS } == (1, 1, 1) && unsafe { LN_N } == n && unsafe { LN_BACK } == (4321, 7, 9), "civil date of the day, stepped by exactly n, converted back");
    assert!(r.get_year() == 4321 && r.get_month() == 6 && r.get_day() == 5, "the converted day is returned");
  }
  core::mem::forget(r); core::mem::forget(d);
  kani::cover!(n == -1, "lunar_day_next reachable");
}

// C14: lunar week objects are accepted under the same rule (month lookup and week count: arbitrary answers of stubs)
static mut LW_WC: usize = 7806;
fn lw_week_count(_m: &LunarMonth, _start: usize) -> usize { unsafe { LW_WC } }
#[kani::proof]
#[kani::unwind(9)]
#[kani::stub(alloc::fmt::format, stub_format)]
#[kani::stub(LunarMonth::from_ym, stub_month_from_ym)]
#[kani::stub(LunarMonth::get_week_count, lw_week_count)]
fn c14_k_lunar_week_accept() {
  let y: isize = kani::any(); let m: isize = kani::any(); let i: usize = kani::any(); let start: usize = kani::any(); let wc: usize = kani::any();
  kani::assume(y >= 0 && y <= 9999 && m != 0 && m >= -12 && m <= 12 && wc >= 5 && wc <= 6);
  unsafe { LW_WC = wc; }
  let r = LunarWeek::new(y, m, i, start);
  assert!(r.is_ok() == (i <= 5 && start <= 6 && i < wc), "accepted exactly when index <= 5, start <= 6 and index < week count");
  if let Ok(ref w) = r { assert!(w.get_index() == i && w.get_year() == y && w.get_month() == m && w.start.get_index() == start, "components stored as given"); }
  core::mem::forget(r);
  kani::cover!(i == 5 && wc == 6 && m == -3, "lunar_week_accept reachable");
}

// ---- C07: the weekday of a lunar day is the weekday of its civil date (c02_k_lunar_to_solar, c07_k_solar_day_week)
static mut LWK_ASKED: (isize, usize, usize) = (-7971, 7972, 7973);
fn lwk_get_solar_day(_d: &LunarDay) -> SolarDay { crate::tyme::solar::verif_k::mk_day(4321, 7, 9) }
fn lwk_day_get_week(d: &SolarDay) -> Week { unsafe { LWK_ASKED = (d.get_year(), d.get_month(), d.get_day()); } Week::from_index(unsafe { LW_W }) }
#[kani::proof]
#[kani::unwind(9)]
#[kani::stub(alloc::fmt::format, stub_format)]
#[kani::stub(LunarDay::get_solar_day, lwk_get_solar_day)]
#[kani::stub(SolarDay::get_week, lwk_day_get_week)]
fn c07_k_lunar_day_week() {
  let d = any_lunar_day(); let w: isize = kani::any();
  kani::assume(w >= 0 && w <= 6);
  unsafe { LW_W = w; }
  let r = d.get_week();
  assert!(r.get_index() as isize == w && unsafe { LWK_ASKED } == (4321, 7, 9), "the weekday of a lunar day is the weekday of its civil date");
  core::mem::forget(d);
  kani::cover!(w == 6, "lunar_day_week reachable");
}

// ---- C17: the hour spirits and the hour nine star on the LUNAR-HOUR view (own bodies, not forwarding): the spirits take the
// day branch of the instant view (rolled at 23:00) and the hour pillar of this view; the nine star takes the day pillar of the
// lunar day, the solstice days of the civil year and the index of the double-hour in the day.
use crate::tyme::sixtycycle::verif_k::{mk_sixty_hour};
use crate::tyme::solar::verif_k::{mk_day, mk_term};
static mut LH_DP: isize = -7981;
static mut LH_HP: isize = -7982;
static mut LH_LDP: isize = -7987;   // day pillar of the LUNAR day (differs from the instant view's from 23:00)
fn lh_lunar_day_pillar(_d: &LunarDay) -> SixtyCycle { cheap_cycle(unsafe { LH_LDP }) }
static mut LH_SOL: (usize, usize, usize, usize) = (7983, 7984, 7985, 7986);   // (winter month, day, summer month, day) of the civil year
fn lh_get_sixty_cycle_hour(_h: &LunarHour) -> SixtyCycleHour { mk_sixty_hour(unsafe { LH_DP }, unsafe { LH_HP }) }
fn lh_hour_pillar(_h: &LunarHour) -> SixtyCycle { cheap_cycle(unsafe { LH_HP }) }
fn lh_day_pillar(_d: &LunarDay) -> SixtyCycle { cheap_cycle(unsafe { LH_DP }) }
fn lh_day_solar_day(_d: &LunarDay) -> SolarDay { mk_day(2000, 6, 15) }
fn lh_term_from_index(year: isize, index: isize) -> SolarTerm { mk_term(year, index, if index == 0 { 1.0 } else { 2.0 }) }
fn lh_term_next(t: &SolarTerm, n: isize) -> SolarTerm { mk_term(t.get_year(), t.get_index() as isize + n, if t.get_index() as isize + n == 12 { 2.0 } else { 3.0 }) }
fn lh_term_jd(t: &SolarTerm) -> JulianDay { JulianDay::from_julian_day(t.get_cursory_julian_day()) }
fn lh_jd_solar_day(j: &JulianDay) -> SolarDay { let v = unsafe { LH_SOL }; if j.get_day() == 1.0 { mk_day(2000, v.0, v.1) } else { mk_day(2000, v.2, v.3) } }

#[kani::proof]
#[kani::unwind(61)]
#[kani::stub(alloc::fmt::format, stub_format)]
#[kani::stub(LunarHour::get_sixty_cycle_hour, lh_get_sixty_cycle_hour)]
#[kani::stub(LunarHour::get_sixty_cycle, lh_hour_pillar)]
#[kani::stub(LunarDay::get_sixty_cycle, lh_lunar_day_pillar)]
#[kani::stub(EarthBranch::from_index, faithful_branch_from_index)]
fn c17_k_lunar_hour_twelve_star() {
  let dp: isize = kani::any(); let hp: isize = kani::any(); let ldp: isize = kani::any();
  kani::assume(dp >= 0 && dp < 60 && hp >= 0 && hp < 60 && ldp >= 0 && ldp < 60);
  unsafe { LH_DP = dp; LH_HP = hp; LH_LDP = ldp; }
  let lh = mk_lunar_hour(2000, 1, 1, 23, 30, 0);
  let (db, hb) = (dp as i64 % 12, hp as i64 % 12);
  let start = match db { 2 | 8 => 0, 3 | 9 => 2, 4 | 10 => 4, 5 | 11 => 6, 0 | 6 => 8, _ => 10 };
  assert!(lh.get_twelve_star().get_index() as i64 == spec::emod(hb - start, 12), "hour spirits: day branch of the INSTANT view (rolled at 23:00), hour branch of this view");
  core::mem::forget(lh);
  kani::cover!(db == 1 && hb == 11, "lunar_hour_twelve_star reachable");
}

#[kani::proof]
#[kani::unwind(61)]
#[kani::stub(alloc::fmt::format, stub_format)]
#[kani::stub(LunarDay::get_solar_day, lh_day_solar_day)]
#[kani::stub(LunarDay::get_sixty_cycle, lh_day_pillar)]
#[kani::stub(SolarTerm::from_index, lh_term_from_index)]
#[kani::stub(<SolarTerm as Tyme>::next, lh_term_next)]
#[kani::stub(SolarTerm::get_julian_day, lh_term_jd)]
#[kani::stub(JulianDay::get_solar_day, lh_jd_solar_day)]
#[kani::stub(EarthBranch::from_index, faithful_branch_from_index)]
fn c17_k_lunar_hour_nine_star() {
  let dp: isize = kani::any(); let h: usize = kani::any();
  let (wm, wd, sm, sd): (usize, usize, usize, usize) = (kani::any(), kani::any(), kani::any(), kani::any());
  kani::assume(dp >= 0 && dp < 60 && h < 24 && wm >= 1 && wm <= 12 && wd >= 1 && wd <= 28 && sm >= 1 && sm <= 12 && sd >= 1 && sd <= 28);
  unsafe { LH_DP = dp; LH_SOL = (wm, wd, sm, sd); }
  let lh = mk_lunar_hour(2000, 1, 1, h, 30, 0);
  let r = lh.get_nine_star().get_index() as i64;
  core::mem::forget(lh);
  let key = |m: usize, d: usize| (m * 32 + d) as i64;
  let asc = key(6, 15) >= key(wm, wd) && key(6, 15) < key(sm, sd);        // between the two solstice days of the civil year
  let start = match dp % 3 { 0 => 8i64, 1 => 5, _ => 2 };                  // by the day branch (dp mod 12 mod 3 == dp mod 3)
  let idx = ((h + 1) / 2) as i64 % 12;
  let want = if asc { spec::emod(8 - start + idx, 9) } else { spec::emod(start - idx, 9) };
  assert!(r == want, "hour nine star: start 8/5/2 by day branch mod 3, descending; mirrored and ascending between the winter and the summer solstice day");
  kani::cover!(asc && h == 23, "lunar_hour_nine_star reachable");
}
