// Kani harness module woven (cfg(kani)) as `mod verif_k` at the end of src/tyme/lunar.rs.
#![allow(dead_code, unused_imports)]
use super::*;
use crate::tyme::{Culture, Tyme};
#[path = "@SPEC@"]
pub mod spec;
pub fn stub_format(_a: core::fmt::Arguments<'_>) -> String { String::new() }
//@CYCLES

// C10: the memo codec. from_ym stores [year, month_with_leap, day_count, index_in_year, first_julian_day] as f64 and
// from_cache rebuilds the month from them: every in-range field tuple survives int -> f64 -> int bit-precisely.
#[kani::proof]
#[kani::stub(alloc::fmt::format, stub_format)]
fn c10_k_cache_codec() {
  let y: isize = kani::any(); let m: isize = kani::any(); let dc: usize = kani::any(); let idx: usize = kani::any(); let first: i64 = kani::any();
  kani::assume(y >= -1 && y <= 9999 && m != 0 && m >= -12 && m <= 12 && dc <= 31 && idx <= 12 && first >= 1000000 && first <= 6000000);
  let mut v: Vec<f64> = Vec::new();
  v.push(y as f64); v.push(m as f64); v.push(dc as f64); v.push(idx as f64); v.push(first as f64);
  let r = LunarMonth::from_cache(v);
  assert!(r.get_year() == y && r.get_month_with_leap() == m && r.is_leap() == (m < 0) && r.get_month() as isize == m.abs(), "year / month / leap flag survive the codec");
  assert!(r.get_day_count() == dc && r.get_index_in_year() == idx && r.get_first_julian_day().get_day() == first as f64, "day count / index / first day survive the codec");
  kani::cover!(m == -12 && y == -1, "cache_codec reachable");
}
