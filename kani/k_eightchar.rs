// Kani harness module woven (cfg(kani)) as `mod verif_k` at the end of src/tyme/eightchar/mod.rs.
#![allow(dead_code, unused_imports)]
use super::*;
use crate::tyme::Tyme;
#[path = "@SPEC@"]
pub mod spec;
pub fn stub_format(_a: core::fmt::Arguments<'_>) -> String { String::new() }

// ---- C16: ChildLimit::from_solar_time on the real body: luck runs forward exactly for Yang-year men and Yin-year women, and the
// Jie handed to the strategy object is the one that opens the birth's term month when luck runs backward, the next one when it
// runs forward. The eight characters of the birth, the governing term and the strategy's answer are stubs (arbitrary year
// pillar of the given polarity and arbitrary term index).
use crate::tyme::sixtycycle::verif_k::{cheap_cycle, faithful_stem_from_index};
use crate::tyme::solar::verif_k::{mk_term, mk_time};
use crate::tyme::lunar::verif_k::mk_lunar_hour;
use crate::tyme::enums::{Gender, YinYang};
use crate::tyme::lunar::LunarHour;
static mut CL_YP: isize = -7961;
static mut CL_TI: isize = -7962;
static mut CL_STEPS: isize = -7963;
static mut CL_INFO_TERM: isize = -7964;
static mut CL_INFO_CALLS: usize = 7965;
fn cl_get_lunar_hour(t: &SolarTime) -> LunarHour { mk_lunar_hour(2000, 1, 1, t.get_hour(), t.get_minute(), t.get_second()) }
fn cl_get_eight_char(_h: &LunarHour) -> EightChar { EightChar { year: cheap_cycle(unsafe { CL_YP }), month: cheap_cycle(0), day: cheap_cycle(0), hour: cheap_cycle(0) } }
fn cl_get_term(_t: &SolarTime) -> SolarTerm { mk_term(2000, unsafe { CL_TI }, 0.0) }
fn cl_term_next(t: &SolarTerm, n: isize) -> SolarTerm { unsafe { CL_STEPS += n; } mk_term(t.get_year(), t.get_index() as isize + n, 0.0) }
fn cl_get_info(_p: &DefaultChildLimitProvider, birth_time: SolarTime, term: SolarTerm) -> ChildLimitInfo {
  unsafe { CL_INFO_TERM = term.get_index() as isize; CL_INFO_CALLS += 1; }
  ChildLimitInfo { start_time: birth_time, end_time: birth_time, year_count: 0, month_count: 0, day_count: 0, hour_count: 0, minute_count: 0 }
}

// one harness per (year polarity, gender): the enum equalities go through to_string(), which CBMC folds only for concrete values
macro_rules! direction_harness { ($name:ident, $yang:expr, $man:expr) => {
  #[kani::proof]
  #[kani::unwind(61)]
  #[kani::stub(alloc::fmt::format, stub_format)]
  #[kani::stub(SolarTime::get_lunar_hour, cl_get_lunar_hour)]
  #[kani::stub(LunarHour::get_eight_char, cl_get_eight_char)]
  #[kani::stub(SolarTime::get_term, cl_get_term)]
  #[kani::stub(<SolarTerm as Tyme>::next, cl_term_next)]
  #[kani::stub(<DefaultChildLimitProvider as ChildLimitProvider>::get_info, cl_get_info)]
  #[kani::stub(HeavenStem::from_index, faithful_stem_from_index)]
  fn $name() {
    let half: isize = kani::any(); let ti: isize = kani::any();
    kani::assume(half >= 0 && half < 30 && ti >= 0 && ti < 24);
    let yang_year: bool = $yang; let man: bool = $man;
    let yp = 2 * half + if yang_year { 0 } else { 1 };    // stems 甲丙戊庚壬 (even index) are Yang
    unsafe { CL_YP = yp; CL_TI = ti; CL_STEPS = 0; CL_INFO_CALLS = 0; }
    let r = ChildLimit::from_solar_time(mk_time(2000, 6, 15, 10, 20, 30), if man { Gender::MAN } else { Gender::WOMAN });
    assert!(r.forward == (yang_year == man), "luck runs forward exactly for Yang-year men and Yin-year women");
    let jie = if ti % 2 == 1 { ti } else { ti - 1 };       // the Jie that opens the term month of the birth
    let want = jie + if r.forward { 2 } else { 0 };
    assert!(unsafe { CL_INFO_CALLS } == 1 && unsafe { CL_STEPS } == want - ti && unsafe { CL_INFO_TERM } as i64 == spec::emod(want as i64, 24), "the governing Jie: the one before (or at) birth when backward, the next one when forward");
    core::mem::forget(r);
    kani::cover!(ti == 0, "direction reachable (birth in the winter-solstice term)");
  }
} }
direction_harness!(c16_k_direction_yang_man, true, true);
direction_harness!(c16_k_direction_yang_woman, true, false);
direction_harness!(c16_k_direction_yin_man, false, true);
direction_harness!(c16_k_direction_yin_woman, false, false);
