// Kani harness module woven (cfg(kani)) as `mod verif_k` at the end of src/tyme/solar.rs.
#![allow(dead_code, unused_imports)]
use super::*;
#[path = "@SPEC@"]
pub mod spec;

pub fn stub_format(_a: core::fmt::Arguments<'_>) -> String { String::new() }

fn any_valid_day() -> SolarDay {
  let y: isize = kani::any();
  let m: usize = kani::any();
  let d: usize = kani::any();
  kani::assume(spec::valid_date(y as i64, m as i64, d as i64));
  SolarDay { month: SolarMonth { parent: AbstractTyme::new(), year: SolarYear { year: y }, month: m }, day: d }
}
fn jdn_of(d: &SolarDay) -> i64 { spec::jdn(d.get_year() as i64, d.get_month() as i64, d.get_day() as i64) }

// C01/K2: acceptance == existence in the civil calendar, for every candidate with a valid year and month
#[kani::proof]
#[kani::stub(alloc::fmt::format, stub_format)]
fn c01_k2_day_accept() {
  let y: isize = kani::any();
  let m: usize = kani::any();
  let d: usize = kani::any();
  kani::assume(y >= 1 && y <= 9999 && m >= 1 && m <= 12);
  let r = SolarDay::new(y, m, d);
  let want = d <= 40 && spec::valid_date(y as i64, m as i64, d as i64);
  assert!(r.is_ok() == want, "SolarDay::new accepts exactly the dates that exist");
  if let Ok(v) = r {
    assert!(v.get_year() == y && v.get_month() == m && v.get_day() == d, "accepted date keeps its fields");
  }
  kani::cover!(y == 1582 && m == 10 && d == 15 && want, "k2 reachable");
}

// C01/K2: months 0 and 13 (every month outside 1..12) and every year outside 1..9999 are refused
#[kani::proof]
#[kani::stub(alloc::fmt::format, stub_format)]
fn c01_k2_month_year_refuse() {
  let y: isize = kani::any();
  let m: usize = kani::any();
  let yr = SolarYear::new(y);
  assert!(yr.is_ok() == (y >= 1 && y <= 9999), "SolarYear::new accepts exactly 1..9999");
  if y >= 1 && y <= 9999 {
    let mr = SolarMonth::new(y, m);
    assert!(mr.is_ok() == (m >= 1 && m <= 12), "SolarMonth::new accepts exactly months 1..12");
    if let Ok(v) = mr { assert!(v.get_year() == y && v.get_month() == m, "fields kept"); }
  }
  kani::cover!(y == 10000, "k2b reachable");
}

// C01/K2: a date whose month or year does not exist is refused by panicking inside SolarDay::new
// (expected outcome: every failed check is the unwrap panic and the cover below is unreachable)
#[kani::proof]
#[kani::stub(alloc::fmt::format, stub_format)]
fn c01_k2_bad_month_year_panics() {
  let y: isize = kani::any();
  let m: usize = kani::any();
  let d: usize = kani::any();
  kani::assume(!(y >= 1 && y <= 9999 && m >= 1 && m <= 12));
  let r = SolarDay::new(y, m, d);
  let _ = r;
  kani::cover!(true, "ACCEPTED_INVALID");
}

// C01/K4: day difference == difference of day numbers (caller sees only from_ymd_hms' contract)
#[kani::proof]
#[kani::stub(alloc::fmt::format, stub_format)]
#[kani::stub_verified(JulianDay::from_ymd_hms)]
fn c01_k4_subtract() {
  let a = any_valid_day();
  let b = any_valid_day();
  let r = a.subtract(b);
  assert!(r as i64 == jdn_of(&a) - jdn_of(&b), "subtract == jdn(a) - jdn(b)");
  kani::cover!(r == -3652060, "k4 reachable extreme");
}

// C01/K5: stepping by n days moves the day number by exactly n (contracts of both conversions only)
#[kani::proof]
#[kani::stub(alloc::fmt::format, stub_format)]
#[kani::stub_verified(JulianDay::from_ymd_hms)]
#[kani::stub_verified(JulianDay::get_solar_time)]
fn c01_k5_next() {
  let a = any_valid_day();
  let n: isize = kani::any();
  let na = jdn_of(&a);
  kani::assume(n >= -4000000 && n <= 4000000);
  kani::assume(na + n as i64 >= 1721424 && na + n as i64 <= 5373484);
  let r = a.next(n);
  assert!(spec::valid_date(r.get_year() as i64, r.get_month() as i64, r.get_day() as i64), "next yields a valid date");
  assert!(jdn_of(&r) == na + n as i64, "jdn(next(n)) == jdn + n");
  kani::cover!(n == -3652060, "k5 reachable extreme");
}

// C01/K3: date -> day count -> date is the identity (composition of the two contracts + injectivity
// of jdn on valid dates is lemma C01.V2; here the composite is ALSO checked directly on the contracts)
#[kani::proof]
#[kani::stub(alloc::fmt::format, stub_format)]
#[kani::stub_verified(JulianDay::from_ymd_hms)]
#[kani::stub_verified(JulianDay::get_solar_time)]
fn c01_k3_roundtrip_by_contract() {
  let a = any_valid_day();
  let r = a.get_julian_day().get_solar_day();
  assert!(jdn_of(&r) == jdn_of(&a), "round trip keeps the day number");
  assert!(spec::valid_date(r.get_year() as i64, r.get_month() as i64, r.get_day() as i64), "round trip yields a valid date");
}

// C01/K6: before/after are the strict lexicographic order on (y,m,d)
#[kani::proof]
#[kani::stub(alloc::fmt::format, stub_format)]
fn c01_k6_order() {
  let a = any_valid_day();
  let b = any_valid_day();
  let ka = (a.get_year() as i64) * 10000 + (a.get_month() as i64) * 100 + a.get_day() as i64;
  let kb = (b.get_year() as i64) * 10000 + (b.get_month() as i64) * 100 + b.get_day() as i64;
  assert!(a.is_before(b) == (ka < kb), "is_before == lexicographic <");
  assert!(a.is_after(b) == (ka > kb), "is_after == lexicographic >");
  assert!((a == b) == (ka == kb), "eq == same fields");
  kani::cover!(ka == kb, "k6 reachable eq");
}

// C01/K7: month / year lengths, leap years
#[kani::proof]
#[kani::stub(alloc::fmt::format, stub_format)]
fn c01_k7_lengths() {
  let y: isize = kani::any();
  let m: usize = kani::any();
  kani::assume(y >= 1 && y <= 9999 && m >= 1 && m <= 12);
  let sm = SolarMonth { parent: AbstractTyme::new(), year: SolarYear { year: y }, month: m };
  assert!(sm.get_day_count() as i64 == spec::month_len(y as i64, m as i64), "month length");
  assert!(sm.get_index_in_year() == m - 1, "month index");
  let sy = SolarYear { year: y };
  assert!(sy.is_leap() == spec::is_leap_civil(y as i64), "leap year");
  assert!(sy.get_day_count() as i64 == spec::year_len(y as i64), "year length");
  kani::cover!(y == 1582 && m == 10, "k7 reachable");
}

// C01/K7: day of year == distance from January 1 (contract of from_ymd_hms only)
#[kani::proof]
#[kani::stub(alloc::fmt::format, stub_format)]
#[kani::stub_verified(JulianDay::from_ymd_hms)]
fn c01_k7_day_of_year() {
  let a = any_valid_day();
  let r = a.get_index_in_year();
  assert!(r as i64 == jdn_of(&a) - spec::jdn(a.get_year() as i64, 1, 1), "index in year");
  kani::cover!(r == 354, "k7b reachable");
}


// ---- C06: term index / year carry, independent of the astronomy ---------------------------------
pub fn stub_calc_qi(_pjd: f64) -> f64 { kani::any() }

#[kani::proof]
#[kani::stub(alloc::fmt::format, stub_format)]
#[kani::stub(crate::tyme::util::ShouXingUtil::calc_qi, stub_calc_qi)]
fn c06_k_from_index() {
  let year: isize = kani::any();
  let index: isize = kani::any();
  kani::assume(year >= 0 && year <= 10000 && index >= -100000 && index <= 100000);
  let total = (year as i64) * 24 + index as i64;
  kani::assume(total >= 0);
  let t = SolarTerm::from_index(year, index);
  assert!(t.get_year() as i64 == spec::ediv(total, 24), "term year == floor(k/24)");
  assert!(t.get_index() as i64 == spec::emod(total, 24), "term index == k mod 24");
  assert!(t.get_size() == 24, "24 terms");
  kani::cover!(year == 2023 && index == -1, "c06 from_index reachable (negative index)");
}

#[kani::proof]
#[kani::stub(alloc::fmt::format, stub_format)]
#[kani::stub(crate::tyme::util::ShouXingUtil::calc_qi, stub_calc_qi)]
fn c06_k_next() {
  let year: isize = kani::any();
  let index: isize = kani::any();
  let n: isize = kani::any();
  kani::assume(year >= 0 && year <= 10000 && index >= 0 && index < 24 && n >= -100000 && n <= 100000);
  let k = (year as i64) * 24 + index as i64;
  kani::assume(k + n as i64 >= 0);
  let t = SolarTerm::from_index(year, index);
  let r = t.next(n);
  assert!((r.get_year() as i64) * 24 + r.get_index() as i64 == k + n as i64, "next(n) is the term n places later");
  assert!(r.get_index() < 24, "index in range");
  kani::cover!(index == 0 && n == -1, "c06 next reachable (backward across the year)");
}

#[kani::proof]
#[kani::stub(alloc::fmt::format, stub_format)]
#[kani::stub(crate::tyme::util::ShouXingUtil::calc_qi, stub_calc_qi)]
fn c06_k_parity() {
  let index: isize = kani::any();
  kani::assume(index >= 0 && index < 24);
  let t = SolarTerm::from_index(2000, index);
  assert!(t.is_jie() == (index % 2 == 1) && t.is_qi() == (index % 2 == 0), "jie <=> odd index");
  kani::cover!(index == 3, "parity reachable");
}

// ---- C11: (year*size + index + n)/size carry pattern --------------------------------------------
// ordinal moves by exactly n whenever the target year is in 1..9999 (outside it the call is refused by
// SolarYear::from_year's unwrap - not exercised here)
#[kani::proof]
#[kani::stub(alloc::fmt::format, stub_format)]
fn c11_k_halfyear_next() {
  let y: isize = kani::any(); let i: usize = kani::any(); let n: isize = kani::any();
  kani::assume(y >= 1 && y <= 9999 && i < 2 && n >= -100000 && n <= 100000);
  let t = (y as i64) * 2 + i as i64 + n as i64;
  kani::assume(t >= 2 && t <= 9999 * 2 + 1);
  let x = SolarHalfYear { year: SolarYear { year: y }, index: i };
  let r = x.next(n);
  assert!((r.get_year() as i64) * 2 + r.get_index() as i64 == t && r.get_index() < 2, "half-year ordinal moves by n");
  kani::cover!(n == -1 && i == 0, "halfyear reachable");
}
#[kani::proof]
#[kani::stub(alloc::fmt::format, stub_format)]
fn c11_k_season_next() {
  let y: isize = kani::any(); let i: usize = kani::any(); let n: isize = kani::any();
  kani::assume(y >= 1 && y <= 9999 && i < 4 && n >= -100000 && n <= 100000);
  let t = (y as i64) * 4 + i as i64 + n as i64;
  kani::assume(t >= 4 && t <= 9999 * 4 + 3);
  let x = SolarSeason { year: SolarYear { year: y }, index: i };
  let r = x.next(n);
  assert!((r.get_year() as i64) * 4 + r.get_index() as i64 == t && r.get_index() < 4, "season ordinal moves by n");
  kani::cover!(n == -1 && i == 0, "season reachable");
}
#[kani::proof]
#[kani::stub(alloc::fmt::format, stub_format)]
fn c11_k_month_next() {
  let y: isize = kani::any(); let m: usize = kani::any(); let n: isize = kani::any();
  kani::assume(y >= 1 && y <= 9999 && m >= 1 && m <= 12 && n >= -200000 && n <= 200000);
  let t = (y as i64) * 12 + (m as i64 - 1) + n as i64;
  kani::assume(t >= 12 && t <= 9999 * 12 + 11);
  let x = SolarMonth { parent: AbstractTyme::new(), year: SolarYear { year: y }, month: m };
  let r = x.next(n);
  assert!((r.get_year() as i64) * 12 + (r.get_month() as i64 - 1) == t && r.get_month() >= 1 && r.get_month() <= 12, "month ordinal moves by n");
  kani::cover!(n == -1 && m == 1, "month reachable");
}
#[kani::proof]
#[kani::stub(alloc::fmt::format, stub_format)]
fn c11_k_year_next() {
  let y: isize = kani::any(); let n: isize = kani::any();
  kani::assume(y >= 1 && y <= 9999 && n >= -20000 && n <= 20000 && y + n >= 1 && y + n <= 9999);
  let r = SolarYear { year: y }.next(n);
  assert!(r.get_year() == y + n, "year moves by n");
  kani::cover!(n == -9998, "year reachable");
}

// ---- C12: clock arithmetic ------------------------------------------------------------------------
// (SolarTime::next and SolarTime::subtract are Verus obligations: verus/c12_time_next.rs; the Kani form of the
//  carry arithmetic did not finish in 14 min - 64-bit division circuits)
static mut REC_SUB: isize = -7609;
fn stub_day_subtract(_a: &SolarDay, _b: SolarDay) -> isize { let v: isize = kani::any(); kani::assume(v >= -4000000 && v <= 4000000); unsafe { REC_SUB = v; } v }
#[kani::proof]
#[kani::stub(alloc::fmt::format, stub_format)]
#[kani::stub(SolarDay::subtract, stub_day_subtract)]
fn c12_k_time_subtract() {
  let a = SolarTime { day: any_valid_day(), hour: kani::any(), minute: kani::any(), second: kani::any() };
  let b = SolarTime { day: any_valid_day(), hour: kani::any(), minute: kani::any(), second: kani::any() };
  kani::assume(a.hour < 24 && a.minute < 60 && a.second < 60 && b.hour < 24 && b.minute < 60 && b.second < 60);
  let r = a.subtract(b);
  let days = unsafe { REC_SUB } as i64;
  let want = days * 86400 + spec::sod(a.hour as i64, a.minute as i64, a.second as i64) - spec::sod(b.hour as i64, b.minute as i64, b.second as i64);
  assert!(r as i64 == want, "difference == 86400*day difference + difference of seconds-of-day");
  kani::cover!(r < 0, "time_subtract reachable");
}

#[kani::proof]
#[kani::stub(alloc::fmt::format, stub_format)]
fn c12_k_time_order() {
  let a = SolarTime { day: any_valid_day(), hour: kani::any(), minute: kani::any(), second: kani::any() };
  let b = SolarTime { day: any_valid_day(), hour: kani::any(), minute: kani::any(), second: kani::any() };
  kani::assume(a.hour < 24 && a.minute < 60 && a.second < 60 && b.hour < 24 && b.minute < 60 && b.second < 60);
  let key = |t: &SolarTime| ((t.get_year() as i64) * 10000 + (t.get_month() as i64) * 100 + t.get_day() as i64, spec::sod(t.hour as i64, t.minute as i64, t.second as i64));
  let (ka, kb) = (key(&a), key(&b));
  assert!(a.is_before(b) == (ka < kb), "is_before == lexicographic (date, second of day)");
  assert!(a.is_after(b) == (ka > kb), "is_after == lexicographic (date, second of day)");
  assert!((a == b) == (ka == kb), "eq");
  kani::cover!(ka.0 == kb.0 && ka.1 < kb.1, "time_order reachable");
}

#[kani::proof]
#[kani::stub(alloc::fmt::format, stub_format)]
fn c12_k_time_accept() {
  let y: isize = kani::any(); let m: usize = kani::any(); let d: usize = kani::any();
  kani::assume(spec::valid_date(y as i64, m as i64, d as i64));
  let h: usize = kani::any(); let mi: usize = kani::any(); let s: usize = kani::any();
  let r = SolarTime::new(y, m, d, h, mi, s);
  assert!(r.is_ok() == (h < 24 && mi < 60 && s < 60), "an instant is accepted exactly when hour<24, minute<60, second<60");
  if let Ok(t) = r { assert!(t.get_hour() == h && t.get_minute() == mi && t.get_second() == s && t.get_day() == d, "fields kept"); }
  kani::cover!(h == 23 && mi == 59 && s == 59, "time_accept reachable");
}

// instant -> Julian date -> instant, every second of the day (sliced by year)
fn c12_rt_body(ylo: isize, yhi: isize) {
  let y: isize = kani::any(); let m: usize = kani::any(); let d: usize = kani::any();
  kani::assume(y >= ylo && y <= yhi);
  kani::assume(spec::valid_date(y as i64, m as i64, d as i64));
  let h: usize = kani::any(); let mi: usize = kani::any(); let s: usize = kani::any();
  kani::assume(h < 24 && mi < 60 && s < 60);
  let t = SolarTime { day: SolarDay { month: SolarMonth { parent: AbstractTyme::new(), year: SolarYear { year: y }, month: m }, day: d }, hour: h, minute: mi, second: s };
  let r = t.get_julian_day().get_solar_time();
  assert!(r == t, "instant -> Julian date -> instant is the identity");
  kani::cover!(h == 23 && mi == 59 && s == 59, "jd roundtrip reachable");
}
//@SLICES prefix=c12_k_jd_roundtrip call=c12_rt_body lo=1 hi=9999 n=100

// ---- C13: containers ------------------------------------------------------------------------------
#[kani::proof]
#[kani::stub(alloc::fmt::format, stub_format)]
#[kani::unwind(14)]
fn c13_k_year_parts() {
  let y: isize = kani::any();
  kani::assume(y >= 1 && y <= 9999);
  let sy = SolarYear { year: y };
  let ms = sy.get_months();
  assert!(ms.len() == 12, "12 months");
  let i: usize = kani::any(); kani::assume(i < 12);
  assert!(ms[i].get_year() == y && ms[i].get_month() == i + 1, "months in order");
  let ss = sy.get_seasons();
  assert!(ss.len() == 4, "4 seasons");
  let j: usize = kani::any(); kani::assume(j < 4);
  assert!(ss[j].get_year() == y && ss[j].get_index() == j, "seasons in order");
  let hs = sy.get_half_years();
  assert!(hs.len() == 2 && hs[0].get_index() == 0 && hs[1].get_index() == 1 && hs[0].get_year() == y && hs[1].get_year() == y, "2 half-years in order");
  // nesting
  let sm = ss[j].get_months();
  assert!(sm.len() == 3, "3 months per season");
  let k: usize = kani::any(); kani::assume(k < 3);
  assert!(sm[k].get_year() == y && sm[k].get_month() == j * 3 + k + 1, "season lists its months");
  assert!(ms[i].get_season().get_index() == i / 3 && ms[i].get_season().get_year() == y, "month knows its season");
  let h: usize = kani::any(); kani::assume(h < 2);
  let hm = hs[h].get_months();
  assert!(hm.len() == 6, "6 months per half-year");
  let q: usize = kani::any(); kani::assume(q < 6);
  assert!(hm[q].get_year() == y && hm[q].get_month() == h * 6 + q + 1, "half-year lists its months");
  let hq = hs[h].get_seasons();
  assert!(hq.len() == 2 && hq[0].get_index() == h * 2 && hq[1].get_index() == h * 2 + 1 && hq[0].get_year() == y, "half-year lists its seasons");
  kani::cover!(y == 1582 && i == 9, "year_parts reachable");
}

#[kani::proof]
#[kani::stub(alloc::fmt::format, stub_format)]
#[kani::unwind(33)]
fn c13_k_month_days() {
  let y: isize = kani::any(); let m: usize = kani::any();
  kani::assume(y >= 1 && y <= 9999 && m >= 1 && m <= 12);
  let sm = SolarMonth { parent: AbstractTyme::new(), year: SolarYear { year: y }, month: m };
  let ds = sm.get_days();
  assert!(ds.len() as i64 == spec::month_len(y as i64, m as i64), "month lists as many days as it has");
  let i: usize = kani::any(); kani::assume(i < ds.len());
  let d = ds[i];
  assert!(d.get_year() == y && d.get_month() == m, "listed days belong to the month");
  assert!(spec::valid_date(y as i64, m as i64, d.get_day() as i64), "listed days exist");
  // i-th existing date of the month: day number i+1, plus the ten dropped days in October 1582
  let want = if y == 1582 && m == 10 && i >= 4 { i + 11 } else { i + 1 };
  assert!(d.get_day() == want, "days in order, none skipped");
  kani::cover!(y == 1582 && m == 10 && i == 4, "month_days reachable (1582-10-15)");
}


// constructor for harnesses in other modules: a solar term object with the given (year, index) over a table of empty names
pub fn mk_term(year: isize, index: isize, cursory: f64) -> SolarTerm {
  SolarTerm { parent: LoopTyme::from_index(crate::tyme::sixtycycle::verif_k::empties(24), index), year, cursory_julian_day: cursory }
}

// ---- C14: week arithmetic on the real bodies. The weekday of the first of the month (a name-table object built through
// the f64 day number: proved in c07_k_week) is replaced by a stub answering an ARBITRARY weekday and recording which date
// was asked; SolarDay::next / subtract and SolarWeek::from_ym are replaced by recording stubs.
static mut WK_W: isize = -7701;
static mut WK_ASKED: (isize, usize, usize) = (-7702, 7703, 7704);
static mut WK_N: isize = -7705;
static mut WK_FROM: (isize, usize, usize) = (-7706, 7707, 7708);
static mut WK_NEW: (isize, usize, usize, usize) = (-7709, 7710, 7711, 7712);
static mut WK_SUB: isize = -7713;
fn wk_day_get_week(d: &SolarDay) -> Week { unsafe { WK_ASKED = (d.get_year(), d.get_month(), d.get_day()); Week::from_index(WK_W) } }
fn wk_day_next(d: &SolarDay, n: isize) -> SolarDay { unsafe { WK_N = n; WK_FROM = (d.get_year(), d.get_month(), d.get_day()); } *d }
fn wk_day_subtract(_a: &SolarDay, b: SolarDay) -> isize { let v: isize = kani::any(); kani::assume(v >= 0 && v <= 30); unsafe { WK_SUB = v; WK_FROM = (b.get_year(), b.get_month(), b.get_day()); } v }
fn wk_week_from_ym(y: isize, m: usize, i: usize, s: usize) -> SolarWeek {
  unsafe { WK_NEW = (y, m, i, s); }
  SolarWeek { parent: AbstractTyme::new(), month: SolarMonth::from_ym(y, m), index: 0, start: Week::from_index(0) }
}

#[kani::proof]
#[kani::unwind(9)]
#[kani::stub(alloc::fmt::format, stub_format)]
#[kani::stub(SolarDay::get_week, wk_day_get_week)]
fn c14_k_solar_week_count() {
  let y: isize = kani::any(); let m: usize = kani::any(); let start: usize = kani::any(); let w: isize = kani::any();
  kani::assume(y >= 1 && y <= 9999 && m >= 1 && m <= 12 && start <= 6 && w >= 0 && w <= 6);
  unsafe { WK_W = w; }
  let c = SolarMonth::from_ym(y, m).get_week_count(start);
  let off = spec::emod(w as i64 - start as i64, 7);
  assert!(c as i64 == (off + spec::month_len(y as i64, m as i64) + 6) / 7, "week count == ceil((offset of the first day in its week + month length) / 7)");
  assert!(unsafe { WK_ASKED } == (y, m, 1), "the weekday asked for is that of the first of the month");
  kani::cover!(y == 1582 && m == 10 && c == 4, "solar_week_count reachable (the 21-day month can have 4 weeks)");
}

#[kani::proof]
#[kani::unwind(9)]
#[kani::stub(alloc::fmt::format, stub_format)]
#[kani::stub(SolarDay::get_week, wk_day_get_week)]
#[kani::stub(<SolarDay as Tyme>::next, wk_day_next)]
fn c14_k_solar_week_first_day() {
  let y: isize = kani::any(); let m: usize = kani::any(); let start: isize = kani::any(); let w: isize = kani::any(); let i: usize = kani::any();
  kani::assume(y >= 1 && y <= 9999 && m >= 1 && m <= 12 && start >= 0 && start <= 6 && w >= 0 && w <= 6 && i <= 5);
  unsafe { WK_W = w; }
  let wk = SolarWeek { parent: AbstractTyme::new(), month: SolarMonth::from_ym(y, m), index: i, start: Week::from_index(start) };
  let _ = wk.get_first_day();
  assert!(unsafe { WK_N } as i64 == 7 * i as i64 - spec::emod((w - start) as i64, 7), "first day of week i == first of the month + 7i - (offset of the first of the month in its week)");
  assert!(unsafe { WK_ASKED } == (y, m, 1) && unsafe { WK_FROM } == (y, m, 1), "counted from the first of the month");
  kani::cover!(i == 5 && w == 0 && start == 6, "solar_week_first_day reachable");
}

#[kani::proof]
#[kani::unwind(9)]
#[kani::stub(alloc::fmt::format, stub_format)]
#[kani::stub(SolarDay::get_week, wk_day_get_week)]
#[kani::stub(SolarDay::subtract, wk_day_subtract)]
#[kani::stub(SolarWeek::from_ym, wk_week_from_ym)]
fn c14_k_day_to_week() {
  let d = any_valid_day(); let start: usize = kani::any(); let w: isize = kani::any();
  kani::assume(start <= 6 && w >= 0 && w <= 6);
  unsafe { WK_W = w; }
  let _ = d.get_solar_week(start);
  let pos = unsafe { WK_SUB } as i64; // days since the first of the month (SolarDay::subtract: C01)
  let off = spec::emod(w as i64 - start as i64, 7);
  assert!(unsafe { WK_NEW } == (d.get_year(), d.get_month(), ((pos + off) / 7) as usize, start), "a date lies in week floor((days since the first + offset of the first in its week) / 7) of its month");
  assert!(unsafe { WK_ASKED } == (d.get_year(), d.get_month(), 1) && unsafe { WK_FROM } == (d.get_year(), d.get_month(), 1), "both counted from the first of the month");
  kani::cover!(pos == 30 && off == 6, "day_to_week reachable (sixth week)");
}

// unvalidated constructors for harnesses in other modules whose inputs are already constrained to valid dates
pub fn mk_day(y: isize, m: usize, d: usize) -> SolarDay { SolarDay { month: SolarMonth { parent: AbstractTyme::new(), year: SolarYear { year: y }, month: m }, day: d } }
pub fn mk_time(y: isize, m: usize, d: usize, h: usize, mi: usize, s: usize) -> SolarTime { SolarTime { day: mk_day(y, m, d), hour: h, minute: mi, second: s } }

// C14: a week object is accepted exactly when index <= 5, start <= 6 and index < week count of the month (the count itself:
// c14_k_solar_week_count; here an arbitrary answer of a stub)
static mut WK_WC: usize = 7714;
fn wk_week_count(_m: &SolarMonth, _start: usize) -> usize { unsafe { WK_WC } }
#[kani::proof]
#[kani::unwind(9)]
#[kani::stub(alloc::fmt::format, stub_format)]
#[kani::stub(SolarMonth::get_week_count, wk_week_count)]
fn c14_k_solar_week_accept() {
  let y: isize = kani::any(); let m: usize = kani::any(); let i: usize = kani::any(); let start: usize = kani::any(); let wc: usize = kani::any();
  kani::assume(y >= 1 && y <= 9999 && m >= 1 && m <= 12 && wc >= 4 && wc <= 6);
  unsafe { WK_WC = wc; }
  let r = SolarWeek::new(y, m, i, start);
  assert!(r.is_ok() == (i <= 5 && start <= 6 && i < wc), "accepted exactly when index <= 5, start <= 6 and index < week count");
  if let Ok(ref w) = r { assert!(w.get_index() == i && w.get_year() == y && w.get_month() == m && w.start.get_index() == start, "components stored as given"); }
  core::mem::forget(r);
  kani::cover!(i == 5 && wc == 6 && start == 6, "solar_week_accept reachable");
}

// ---- C15: the commanding stem of a day (packed digit string decoded with str slicing and from_str): for every Jie month and
// every day offset 0..=31 inside it, the (stem, slot, day index) handed to the constructors equals the classical allotment.
// The governing term and the day offset are arbitrary answers of stubs (the term search is the C06 Verus unit).
use crate::tyme::sixtycycle::{HideHeavenStem, HideHeavenStemDay};
use crate::tyme::sixtycycle::verif_k::{rec_hide_from_index, rec_hide_day_new, H_ARGS};
static mut HS_TI: isize = -7715;
static mut HS_OFF: isize = -7716;
static mut HS_BACK: usize = 7717;
fn hs_get_term(_d: &SolarDay) -> SolarTerm { mk_term(2000, unsafe { HS_TI }, 0.0) }
fn hs_term_next(t: &SolarTerm, n: isize) -> SolarTerm { unsafe { if n == -1 { HS_BACK += 1; } else { HS_BACK += 100; } } mk_term(t.get_year(), t.get_index() as isize + n, 0.0) }
fn hs_term_jd(_t: &SolarTerm) -> JulianDay { JulianDay::from_julian_day(2451545.0) }
fn hs_jd_solar_day(_j: &JulianDay) -> SolarDay { mk_day(2000, 1, 1) }
fn hs_subtract(_a: &SolarDay, _b: SolarDay) -> isize { unsafe { HS_OFF } }
macro_rules! commanding_stem_harness { ($name:ident, $ti:expr) => {
  #[kani::proof]
  #[kani::unwind(80)]
  #[kani::stub(alloc::fmt::format, stub_format)]
  #[kani::stub(SolarDay::get_term, hs_get_term)]
  #[kani::stub(<SolarTerm as Tyme>::next, hs_term_next)]
  #[kani::stub(SolarTerm::get_julian_day, hs_term_jd)]
  #[kani::stub(JulianDay::get_solar_day, hs_jd_solar_day)]
  #[kani::stub(SolarDay::subtract, hs_subtract)]
  #[kani::stub(HideHeavenStem::from_index, rec_hide_from_index)]
  #[kani::stub(HideHeavenStemDay::new, rec_hide_day_new)]
  fn $name() {
    let ti: isize = $ti; let off: isize = kani::any();
    kani::assume(off >= 0 && off <= 31);
    unsafe { HS_TI = ti; HS_OFF = off; HS_BACK = 0; }
    let r = mk_day(2000, 6, 15).get_hide_heaven_stem_day();
    core::mem::forget(r);
    let kj = if ti % 2 == 1 { ti } else { spec::emod(ti as i64 - 1, 24) as isize };   // the Jie that opens the month
    assert!(unsafe { HS_BACK } == if ti % 2 == 1 { 0 } else { 1 }, "a Qi steps back to its Jie, a Jie stays");
    let mb = spec::emod(2 + spec::ediv(kj as i64 - 3, 2), 12);
    let want = spec::commanding_stem(mb, off as i64);
    let got = unsafe { H_ARGS };
    assert!((got.0 as i64, got.1 as i64, got.2 as i64) == want, "(stem, slot, day index inside the slot) == the classical per-month allotment");
    kani::cover!(off == 14, "commanding_stem reachable");
  }
} }
// one harness per governing term (the packed string is then sliced at a concrete place and parsed by constant folding; the day
// offset stays symbolic) - the symbolic-term form did not finish in 10 min
commanding_stem_harness!(c15_k_commanding_stem_t00, 0);
commanding_stem_harness!(c15_k_commanding_stem_t01, 1);
commanding_stem_harness!(c15_k_commanding_stem_t02, 2);
commanding_stem_harness!(c15_k_commanding_stem_t03, 3);
commanding_stem_harness!(c15_k_commanding_stem_t04, 4);
commanding_stem_harness!(c15_k_commanding_stem_t05, 5);
commanding_stem_harness!(c15_k_commanding_stem_t06, 6);
commanding_stem_harness!(c15_k_commanding_stem_t07, 7);
commanding_stem_harness!(c15_k_commanding_stem_t08, 8);
commanding_stem_harness!(c15_k_commanding_stem_t09, 9);
commanding_stem_harness!(c15_k_commanding_stem_t10, 10);
commanding_stem_harness!(c15_k_commanding_stem_t11, 11);
commanding_stem_harness!(c15_k_commanding_stem_t12, 12);
commanding_stem_harness!(c15_k_commanding_stem_t13, 13);
commanding_stem_harness!(c15_k_commanding_stem_t14, 14);
commanding_stem_harness!(c15_k_commanding_stem_t15, 15);
commanding_stem_harness!(c15_k_commanding_stem_t16, 16);
commanding_stem_harness!(c15_k_commanding_stem_t17, 17);
commanding_stem_harness!(c15_k_commanding_stem_t18, 18);
commanding_stem_harness!(c15_k_commanding_stem_t19, 19);
commanding_stem_harness!(c15_k_commanding_stem_t20, 20);
commanding_stem_harness!(c15_k_commanding_stem_t21, 21);
commanding_stem_harness!(c15_k_commanding_stem_t22, 22);
commanding_stem_harness!(c15_k_commanding_stem_t23, 23);

// ---- C07: the weekday of a civil date through its day number: (jdn + 1) mod 7 for every valid date (the caller sees only the
// proved contract of JulianDay::from_ymd_hms; the weekday formula on day numbers is c07_k_week)
#[kani::proof]
#[kani::unwind(9)]
#[kani::stub(alloc::fmt::format, stub_format)]
#[kani::stub_verified(JulianDay::from_ymd_hms)]
fn c07_k_solar_day_week() {
  let d = any_valid_day();
  let w = d.get_week().get_index() as i64;
  assert!(w == spec::weekday_of(spec::jdn(d.get_year() as i64, d.get_month() as i64, d.get_day() as i64)), "weekday of a civil date == (day number + 1) mod 7");
  kani::cover!(d.get_year() == 1582 && d.get_month() == 10 && d.get_day() == 15, "solar_day_week reachable (first Gregorian day)");
}
