// Kani harness module woven (cfg(kani)) as `mod verif_k` at the end of src/tyme/solar.rs.
#![allow(dead_code, unused_imports)]
use super::*;
#[path = "@SPEC@"]
pub mod spec;

pub fn stub_format(_a: core::fmt::Arguments<'_>) -> String { String::new() }

fn any_valid_day() -> SolarDay {
  let y: isize = kani::any();
  let m: usize = kani::any();
  let d: usize = kani::any();
  kani::assume(spec::valid_date(y as i64, m as i64, d as i64));
  SolarDay { month: SolarMonth { parent: AbstractTyme::new(), year: SolarYear { year: y }, month: m }, day: d }
}
fn jdn_of(d: &SolarDay) -> i64 { spec::jdn(d.get_year() as i64, d.get_month() as i64, d.get_day() as i64) }

// C01/K2: acceptance == existence in the civil calendar, for every candidate with a valid year and month
#[kani::proof]
#[kani::stub(alloc::fmt::format, stub_format)]
fn c01_k2_day_accept() {
  let y: isize = kani::any();
  let m: usize = kani::any();
  let d: usize = kani::any();
  kani::assume(y >= 1 && y <= 9999 && m >= 1 && m <= 12);
  let r = SolarDay::new(y, m, d);
  let want = d <= 40 && spec::valid_date(y as i64, m as i64, d as i64);
  assert!(r.is_ok() == want, "SolarDay::new accepts exactly the dates that exist");
  if let Ok(v) = r {
    assert!(v.get_year() == y && v.get_month() == m && v.get_day() == d, "accepted date keeps its fields");
  }
  kani::cover!(y == 1582 && m == 10 && d == 15 && want, "k2 reachable");
}

// C01/K2: months 0 and 13 (every month outside 1..12) and every year outside 1..9999 are refused
#[kani::proof]
#[kani::stub(alloc::fmt::format, stub_format)]
fn c01_k2_month_year_refuse() {
  let y: isize = kani::any();
  let m: usize = kani::any();
  let yr = SolarYear::new(y);
  assert!(yr.is_ok() == (y >= 1 && y <= 9999), "SolarYear::new accepts exactly 1..9999");
  if y >= 1 && y <= 9999 {
    let mr = SolarMonth::new(y, m);
    assert!(mr.is_ok() == (m >= 1 && m <= 12), "SolarMonth::new accepts exactly months 1..12");
    if let Ok(v) = mr { assert!(v.get_year() == y && v.get_month() == m, "fields kept"); }
  }
  kani::cover!(y == 10000, "k2b reachable");
}

// C01/K2: a date whose month or year does not exist is refused by panicking inside SolarDay::new
// (expected outcome: every failed check is the unwrap panic and the cover below is unreachable)
#[kani::proof]
#[kani::stub(alloc::fmt::format, stub_format)]
fn c01_k2_bad_month_year_panics() {
  let y: isize = kani::any();
  let m: usize = kani::any();
  let d: usize = kani::any();
  kani::assume(!(y >= 1 && y <= 9999 && m >= 1 && m <= 12));
  let r = SolarDay::new(y, m, d);
  let _ = r;
  kani::cover!(true, "ACCEPTED_INVALID");
}

// C01/K4: day difference == difference of day numbers (caller sees only from_ymd_hms' contract)
#[kani::proof]
#[kani::stub(alloc::fmt::format, stub_format)]
#[kani::stub_verified(JulianDay::from_ymd_hms)]
fn c01_k4_subtract() {
  let a = any_valid_day();
  let b = any_valid_day();
  let r = a.subtract(b);
  assert!(r as i64 == jdn_of(&a) - jdn_of(&b), "subtract == jdn(a) - jdn(b)");
  kani::cover!(r == -3652060, "k4 reachable extreme");
}

// C01/K5: stepping by n days moves the day number by exactly n (contracts of both conversions only)
#[kani::proof]
#[kani::stub(alloc::fmt::format, stub_format)]
#[kani::stub_verified(JulianDay::from_ymd_hms)]
#[kani::stub_verified(JulianDay::get_solar_time)]
fn c01_k5_next() {
  let a = any_valid_day();
  let n: isize = kani::any();
  let na = jdn_of(&a);
  kani::assume(n >= -4000000 && n <= 4000000);
  kani::assume(na + n as i64 >= 1721424 && na + n as i64 <= 5373484);
  let r = a.next(n);
  assert!(spec::valid_date(r.get_year() as i64, r.get_month() as i64, r.get_day() as i64), "next yields a valid date");
  assert!(jdn_of(&r) == na + n as i64, "jdn(next(n)) == jdn + n");
  kani::cover!(n == -3652060, "k5 reachable extreme");
}

// C01/K3: date -> day count -> date is the identity (composition of the two contracts + injectivity
// of jdn on valid dates is lemma C01.V2; here the composite is ALSO checked directly on the contracts)
#[kani::proof]
#[kani::stub(alloc::fmt::format, stub_format)]
#[kani::stub_verified(JulianDay::from_ymd_hms)]
#[kani::stub_verified(JulianDay::get_solar_time)]
fn c01_k3_roundtrip_by_contract() {
  let a = any_valid_day();
  let r = a.get_julian_day().get_solar_day();
  assert!(jdn_of(&r) == jdn_of(&a), "round trip keeps the day number");
  assert!(spec::valid_date(r.get_year() as i64, r.get_month() as i64, r.get_day() as i64), "round trip yields a valid date");
}

// C01/K6: before/after are the strict lexicographic order on (y,m,d)
#[kani::proof]
#[kani::stub(alloc::fmt::format, stub_format)]
fn c01_k6_order() {
  let a = any_valid_day();
  let b = any_valid_day();
  let ka = (a.get_year() as i64) * 10000 + (a.get_month() as i64) * 100 + a.get_day() as i64;
  let kb = (b.get_year() as i64) * 10000 + (b.get_month() as i64) * 100 + b.get_day() as i64;
  assert!(a.is_before(b) == (ka < kb), "is_before == lexicographic <");
  assert!(a.is_after(b) == (ka > kb), "is_after == lexicographic >");
  assert!((a == b) == (ka == kb), "eq == same fields");
  kani::cover!(ka == kb, "k6 reachable eq");
}

// C01/K7: month / year lengths, leap years
#[kani::proof]
#[kani::stub(alloc::fmt::format, stub_format)]
fn c01_k7_lengths() {
  let y: isize = kani::any();
  let m: usize = kani::any();
  kani::assume(y >= 1 && y <= 9999 && m >= 1 && m <= 12);
  let sm = SolarMonth { parent: AbstractTyme::new(), year: SolarYear { year: y }, month: m };
  assert!(sm.get_day_count() as i64 == spec::month_len(y as i64, m as i64), "month length");
  assert!(sm.get_index_in_year() == m - 1, "month index");
  let sy = SolarYear { year: y };
  assert!(sy.is_leap() == spec::is_leap_civil(y as i64), "leap year");
  assert!(sy.get_day_count() as i64 == spec::year_len(y as i64), "year length");
  kani::cover!(y == 1582 && m == 10, "k7 reachable");
}

// C01/K7: day of year == distance from January 1 (contract of from_ymd_hms only)
#[kani::proof]
#[kani::stub(alloc::fmt::format, stub_format)]
#[kani::stub_verified(JulianDay::from_ymd_hms)]
fn c01_k7_day_of_year() {
  let a = any_valid_day();
  let r = a.get_index_in_year();
  assert!(r as i64 == jdn_of(&a) - spec::jdn(a.get_year() as i64, 1, 1), "index in year");
  kani::cover!(r == 354, "k7b reachable");
}


// ---- C06: term index / year carry, independent of the astronomy ---------------------------------
pub fn stub_calc_qi(_pjd: f64) -> f64 { kani::any() }

#[kani::proof]
#[kani::stub(alloc::fmt::format, stub_format)]
#[kani::stub(crate::tyme::util::ShouXingUtil::calc_qi, stub_calc_qi)]
fn c06_k_from_index() {
  let year: isize = kani::any();
  let index: isize = kani::any();
  kani::assume(year >= 0 && year <= 10000 && index >= -100000 && index <= 100000);
  let total = (year as i64) * 24 + index as i64;
  kani::assume(total >= 0);
  let t = SolarTerm::from_index(year, index);
  assert!(t.get_year() as i64 == spec::ediv(total, 24), "term year == floor(k/24)");
  assert!(t.get_index() as i64 == spec::emod(total, 24), "term index == k mod 24");
  assert!(t.get_size() == 24, "24 terms");
  kani::cover!(year == 2023 && index == -1, "c06 from_index reachable (negative index)");
}

#[kani::proof]
#[kani::stub(alloc::fmt::format, stub_format)]
#[kani::stub(crate::tyme::util::ShouXingUtil::calc_qi, stub_calc_qi)]
fn c06_k_next() {
  let year: isize = kani::any();
  let index: isize = kani::any();
  let n: isize = kani::any();
  kani::assume(year >= 0 && year <= 10000 && index >= 0 && index < 24 && n >= -100000 && n <= 100000);
  let k = (year as i64) * 24 + index as i64;
  kani::assume(k + n as i64 >= 0);
  let t = SolarTerm::from_index(year, index);
  let r = t.next(n);
  assert!((r.get_year() as i64) * 24 + r.get_index() as i64 == k + n as i64, "next(n) is the term n places later");
  assert!(r.get_index() < 24, "index in range");
  kani::cover!(index == 0 && n == -1, "c06 next reachable (backward across the year)");
}

#[kani::proof]
#[kani::stub(alloc::fmt::format, stub_format)]
#[kani::stub(crate::tyme::util::ShouXingUtil::calc_qi, stub_calc_qi)]
fn c06_k_parity() {
  let index: isize = kani::any();
  kani::assume(index >= 0 && index < 24);
  let t = SolarTerm::from_index(2000, index);
  assert!(t.is_jie() == (index % 2 == 1) && t.is_qi() == (index % 2 == 0), "jie <=> odd index");
  kani::cover!(index == 3, "parity reachable");
}
