#![allow(dead_code, unused_parens, unused_variables)]

// ---- spec/calendar.rs

// Executable specification of the civil calendar, written from the calendar's definition
// (Julian to 1582-10-04, Gregorian from 1582-10-15, ten dropped days nonexistent), NOT from
// the Meeus formulas the library uses.
//
// One text, three uses (tools/specgen.py):
//   * as is, inside verus!{}: the exec fns carry `ensures r == <math twin>` and Verus proves it;
//   * with every line ending in `//@` and every `//@{ .. //@}` block removed and `-> T`
//     rewritten to `-> T`: plain Rust, compiled into the Kani harness modules, the leaf runner
//     and the replay runner.
// Integers are i64 everywhere; ranges are in `requires` so Verus discharges overflow.


pub fn is_leap_civil(y: i64) -> bool
{
    if y <= 1582 { y % 4 == 0 } else { (y % 4 == 0 && y % 100 != 0) || y % 400 == 0 }
}

pub fn std_len(y: i64, m: i64) -> i64
{
    if m == 2 { if is_leap_civil(y) { 29 } else { 28 } }
    else if m == 4 || m == 6 || m == 9 || m == 11 { 30 } else { 31 }
}

pub fn month_len(y: i64, m: i64) -> i64
{
    if y == 1582 && m == 10 { 21 } else { std_len(y, m) }
}

pub fn year_len(y: i64) -> i64
{
    if y == 1582 { 355 } else if is_leap_civil(y) { 366 } else { 365 }
}

pub fn valid_date(y: i64, m: i64, d: i64) -> bool
{
    if y < 1 || y > 9999 || m < 1 || m > 12 || d < 1 { return false; }
    if d > std_len(y, m) { return false; }
    !(y == 1582 && m == 10 && d >= 5 && d <= 14)
}

pub fn after_cutover(y: i64, m: i64, d: i64) -> bool
{
    y > 1582 || (y == 1582 && (m > 10 || (m == 10 && d >= 15)))
}

pub fn cum_days(m: i64) -> i64
{
    if m == 1 { 0 } else if m == 2 { 31 } else if m == 3 { 59 } else if m == 4 { 90 } else if m == 5 { 120 }
    else if m == 6 { 151 } else if m == 7 { 181 } else if m == 8 { 212 } else if m == 9 { 243 }
    else if m == 10 { 273 } else if m == 11 { 304 } else if m == 12 { 334 } else { 365 }
}

pub fn jdn(y: i64, m: i64, d: i64) -> i64
{
    let yy = y - 1;
    if after_cutover(y, m, d) {
        let leap = (y % 4 == 0 && y % 100 != 0) || y % 400 == 0;
        let c = if yy >= 0 { yy / 4 - yy / 100 + yy / 400 } else { -1 + 1 - 1 };
        1721425 + 365 * yy + c + cum_days(m) + (if m > 2 && leap { 1 } else { 0 }) + d
    } else {
        let leap = y % 4 == 0;
        let c = if yy >= 0 { yy / 4 } else { -1 };
        1721423 + 365 * yy + c + cum_days(m) + (if m > 2 && leap { 1 } else { 0 }) + d
    }
}

/// Euclidean remainder for a positive constant-like modulus
pub fn emod(a: i64, b: i64) -> i64
{
    let m = a % b;
    if m < 0 { m + b } else { m }
}

/// floor division for a positive modulus
pub fn ediv(a: i64, b: i64) -> i64
{
    let q = a / b;
    let m = a % b;
    if m < 0 { q - 1 } else { q }
}

/// weekday index (0 = Sunday) of a day number
pub fn weekday_of(n: i64) -> i64
{ emod(n + 1, 7) }

/// sexagenary day pillar index of a day number
pub fn pillar_of(n: i64) -> i64
{ emod(n + 49, 60) }

/// seconds of day
pub fn sod(h: i64, mi: i64, s: i64) -> i64
{ h * 3600 + mi * 60 + s }
