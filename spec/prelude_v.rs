// Verus-only prelude for the spec library: relates Rust's truncating `/ %` (vstd rust_rem / rust_div)
// to the Euclidean `/ %` of spec integers.
pub proof fn lemma_trunc_rem(a: int, b: int)
    requires b > 0,
    ensures
        0int % b == 0, 0int / b == 0,
        a >= 0 ==> 0 <= a % b < b,
        a < 0 && (-a) % b == 0 ==> a % b == 0 && a / b == -((-a) / b),
        a < 0 && (-a) % b != 0 ==> a % b == b - (-a) % b && a / b == -((-a) / b) - 1,
        0 <= (-a) % b < b || a >= 0,
{
    vstd::arithmetic::div_mod::lemma_small_mod(0nat, b as nat);
    vstd::arithmetic::div_mod::lemma_div_basics(b);
    if a >= 0 {
        vstd::arithmetic::div_mod::lemma_mod_pos_bound(a, b);
    } else {
        let na = -a;
        vstd::arithmetic::div_mod::lemma_mod_pos_bound(na, b);
        vstd::arithmetic::div_mod::lemma_fundamental_div_mod(na, b);
        let q = na / b;
        let r = na % b;
        assert(na == b * q + r);
        if r == 0 {
            assert(a == (-q) * b + 0) by(nonlinear_arith) requires a == -(b * q);
            vstd::arithmetic::div_mod::lemma_fundamental_div_mod_converse(a, b, -q, 0);
        } else {
            assert(a == (-q - 1) * b + (b - r)) by(nonlinear_arith) requires a == -(b * q + r);
            vstd::arithmetic::div_mod::lemma_fundamental_div_mod_converse(a, b, -q - 1, b - r);
        }
    }
}
