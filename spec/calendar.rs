// Executable specification of the civil calendar, written from the calendar's definition
// (Julian to 1582-10-04, Gregorian from 1582-10-15, ten dropped days nonexistent), NOT from
// the Meeus formulas the library uses.
//
// One text, three uses (tools/specgen.py):
//   * as is, inside verus!{}: the exec fns carry `ensures r == <math twin>` and Verus proves it;
//   * with every line ending in `//@` and every `//@{ .. //@}` block removed and `-> (r: T)`
//     rewritten to `-> T`: plain Rust, compiled into the Kani harness modules, the leaf runner
//     and the replay runner.
// Integers are i64 everywhere; ranges are in `requires` so Verus discharges overflow.

//@{
pub open spec fn m_leap_julian(y: int) -> bool { y % 4 == 0 }
pub open spec fn m_leap_greg(y: int) -> bool { (y % 4 == 0 && y % 100 != 0) || y % 400 == 0 }
/// civil leap year: Julian rule up to 1582, Gregorian rule from 1583
pub open spec fn m_is_leap(y: int) -> bool { if y <= 1582 { m_leap_julian(y) } else { m_leap_greg(y) } }
pub open spec fn m_std_len(y: int, m: int) -> int {
    if m == 2 { if m_is_leap(y) { 29 } else { 28 } }
    else if m == 4 || m == 6 || m == 9 || m == 11 { 30 } else { 31 }
}
/// number of dates that exist in the month
pub open spec fn m_month_len(y: int, m: int) -> int { if y == 1582 && m == 10 { 21 } else { m_std_len(y, m) } }
pub open spec fn m_valid_date(y: int, m: int, d: int) -> bool {
    1 <= y <= 9999 && 1 <= m <= 12 && 1 <= d <= m_std_len(y, m) && !(y == 1582 && m == 10 && 5 <= d <= 14)
}
pub open spec fn m_after_cutover(y: int, m: int, d: int) -> bool {
    y > 1582 || (y == 1582 && (m > 10 || (m == 10 && d >= 15)))
}
/// days in months 1..m-1 of a non-leap year
pub open spec fn m_cum(m: int) -> int
    decreases m
{ if m <= 1 { 0 } else { m_cum(m - 1) + (if m - 1 == 2 { 28int } else if m - 1 == 4 || m - 1 == 6 || m - 1 == 9 || m - 1 == 11 { 30int } else { 31int }) } }
/// 1-based ordinal of (m,d) inside year y when the year is reckoned entirely in one calendar
pub open spec fn m_doy(leap: bool, m: int, d: int) -> int { m_cum(m) + (if m > 2 && leap { 1int } else { 0int }) + d }
/// Julian day number (integer, noon-based) of a civil date; also defined on the ten dropped days
/// (as Julian-calendar dates) so that it is total on 1<=d<=31, but only valid dates matter.
pub open spec fn m_jdn(y: int, m: int, d: int) -> int {
    if m_after_cutover(y, m, d) {
        1721425 + 365 * (y - 1) + (y - 1) / 4 - (y - 1) / 100 + (y - 1) / 400 + m_doy(m_leap_greg(y), m, d)
    } else {
        1721423 + 365 * (y - 1) + (y - 1) / 4 + m_doy(m_leap_julian(y), m, d)
    }
}
pub open spec fn m_emod(a: int, b: int) -> int { a % b }
pub open spec fn m_ediv(a: int, b: int) -> int { a / b }
//@}

pub fn is_leap_civil(y: i64) -> (r: bool)
    requires 0 <= y <= 10001, //@
    ensures r == m_is_leap(y as int), //@
{
    if y <= 1582 { y % 4 == 0 } else { (y % 4 == 0 && y % 100 != 0) || y % 400 == 0 }
}

pub fn std_len(y: i64, m: i64) -> (r: i64)
    requires 0 <= y <= 10001, 1 <= m <= 12, //@
    ensures r == m_std_len(y as int, m as int), //@
{
    if m == 2 { if is_leap_civil(y) { 29 } else { 28 } }
    else if m == 4 || m == 6 || m == 9 || m == 11 { 30 } else { 31 }
}

pub fn month_len(y: i64, m: i64) -> (r: i64)
    requires 0 <= y <= 10001, 1 <= m <= 12, //@
    ensures r == m_month_len(y as int, m as int), //@
{
    if y == 1582 && m == 10 { 21 } else { std_len(y, m) }
}

pub fn year_len(y: i64) -> (r: i64)
    requires 0 <= y <= 10001, //@
    ensures r == (if y == 1582 { 355int } else if m_is_leap(y as int) { 366int } else { 365int }), //@
{
    if y == 1582 { 355 } else if is_leap_civil(y) { 366 } else { 365 }
}

pub fn valid_date(y: i64, m: i64, d: i64) -> (r: bool)
    ensures r == m_valid_date(y as int, m as int, d as int), //@
{
    if y < 1 || y > 9999 || m < 1 || m > 12 || d < 1 { return false; }
    if d > std_len(y, m) { return false; }
    !(y == 1582 && m == 10 && d >= 5 && d <= 14)
}

pub fn after_cutover(y: i64, m: i64, d: i64) -> (r: bool)
    ensures r == m_after_cutover(y as int, m as int, d as int), //@
{
    y > 1582 || (y == 1582 && (m > 10 || (m == 10 && d >= 15)))
}

pub fn cum_days(m: i64) -> (r: i64)
    requires 1 <= m <= 13, //@
    ensures r == m_cum(m as int), 0 <= r <= 365, //@
{
    proof { reveal_with_fuel(m_cum, 14); } //@
    if m == 1 { 0 } else if m == 2 { 31 } else if m == 3 { 59 } else if m == 4 { 90 } else if m == 5 { 120 }
    else if m == 6 { 151 } else if m == 7 { 181 } else if m == 8 { 212 } else if m == 9 { 243 }
    else if m == 10 { 273 } else if m == 11 { 304 } else if m == 12 { 334 } else { 365 }
}

pub fn jdn(y: i64, m: i64, d: i64) -> (r: i64)
    requires 0 <= y <= 10001, 1 <= m <= 12, 0 <= d <= 40, //@
    ensures r == m_jdn(y as int, m as int, d as int), //@
{
    let yy = y - 1;
    if after_cutover(y, m, d) {
        let leap = (y % 4 == 0 && y % 100 != 0) || y % 400 == 0;
        let c = if yy >= 0 { yy / 4 - yy / 100 + yy / 400 } else { -1 + 1 - 1 };
        1721425 + 365 * yy + c + cum_days(m) + (if m > 2 && leap { 1 } else { 0 }) + d
    } else {
        let leap = y % 4 == 0;
        let c = if yy >= 0 { yy / 4 } else { -1 };
        1721423 + 365 * yy + c + cum_days(m) + (if m > 2 && leap { 1 } else { 0 }) + d
    }
}

/// Euclidean remainder for a positive constant-like modulus
pub fn emod(a: i64, b: i64) -> (r: i64)
    requires 0 < b <= 100000, -4000000000000000000 <= a <= 4000000000000000000, //@
    ensures r == m_emod(a as int, b as int), 0 <= r < b, //@
{
    let m = a % b;
    proof { lemma_trunc_rem(a as int, b as int); } //@
    if m < 0 { m + b } else { m }
}

/// floor division for a positive modulus
pub fn ediv(a: i64, b: i64) -> (r: i64)
    requires 0 < b <= 100000, -4000000000000000000 <= a <= 4000000000000000000, //@
    ensures r == m_ediv(a as int, b as int), //@
{
    let q = a / b;
    let m = a % b;
    proof { lemma_trunc_rem(a as int, b as int); } //@
    if m < 0 { q - 1 } else { q }
}

/// weekday index (0 = Sunday) of a day number
pub fn weekday_of(n: i64) -> (r: i64)
    requires -1000000000 <= n <= 1000000000, //@
    ensures r == m_emod(n as int + 1, 7), //@
{ emod(n + 1, 7) }

/// sexagenary day pillar index of a day number
pub fn pillar_of(n: i64) -> (r: i64)
    requires -1000000000 <= n <= 1000000000, //@
    ensures r == m_emod(n as int + 49, 60), //@
{ emod(n + 49, 60) }

/// seconds of day
pub fn sod(h: i64, mi: i64, s: i64) -> (r: i64)
    requires 0 <= h < 24, 0 <= mi < 60, 0 <= s < 60, //@
    ensures r == h * 3600 + mi * 60 + s, 0 <= r < 86400, //@
{ h * 3600 + mi * 60 + s }
