// The no-major-term (wu zhongqi) leap-month rule as an executable checker, Verus-verified against its
// mathematical statement (C04). Inputs are day numbers:
//   nm[0..n]  successive new-moon days, nm[0] the new moon on or before the opening winter solstice
//   zq[0..k]  the major-term (zhongqi) days of the period
//   ws1       the closing winter-solstice day
// Rule: the lunation containing a winter solstice is month 11. `last` is the lunation containing ws1. If 13 lunations
// separate the two solstice months (last == 13), the first lunation after the opening one that contains no major
// term is the leap month; otherwise there is none.

//@{
pub open spec fn m_contains(nm: Seq<i64>, i: int, x: int) -> bool { nm[i] <= x && x < nm[i + 1] }
pub open spec fn m_has_zq(nm: Seq<i64>, zq: Seq<i64>, i: int) -> bool { exists|j: int| 0 <= j < zq.len() && m_contains(nm, i, #[trigger] zq[j] as int) }
/// i is the index of the lunation containing ws1
pub open spec fn m_is_last(nm: Seq<i64>, ws1: int, i: int) -> bool { 0 <= i < nm.len() - 1 && m_contains(nm, i, ws1) }
/// p is the leap position demanded by the rule (-1: no leap month)
pub open spec fn m_is_leap_pos(nm: Seq<i64>, zq: Seq<i64>, last: int, p: int) -> bool {
    if last == 13 {
        (1 <= p < 13 && !m_has_zq(nm, zq, p) && forall|i: int| 1 <= i < p ==> #[trigger] m_has_zq(nm, zq, i))
        || (p == -1 && forall|i: int| 1 <= i < 13 ==> #[trigger] m_has_zq(nm, zq, i))
    } else { p == -1 }
}
pub open spec fn m_increasing(nm: Seq<i64>) -> bool { forall|a: int, b: int| 0 <= a < b < nm.len() ==> nm[a] < nm[b] }
//@}

/// does lunation i contain a major term?
pub fn has_zq(nm: &Vec<i64>, zq: &Vec<i64>, i: usize) -> (r: bool)
    requires i + 1 < nm.len(), //@
    ensures r == m_has_zq(nm@, zq@, i as int), //@
{
    let mut j: usize = 0;
    while j < zq.len()
        invariant j <= zq.len(), i + 1 < nm.len(), forall|q: int| 0 <= q < j ==> !m_contains(nm@, i as int, #[trigger] zq@[q] as int), //@
        decreases zq.len() - j, //@
    {
        if nm[i] <= zq[j] && zq[j] < nm[i + 1] { return true; }
        j += 1;
    }
    false
}

/// index of the lunation containing ws1, or -1 when none of the given lunations does
pub fn last_lunation(nm: &Vec<i64>, ws1: i64) -> (r: i64)
    requires nm.len() >= 2, nm.len() <= 64, //@
    ensures r >= 0 ==> m_is_last(nm@, ws1 as int, r as int), //@
            r == -1 ==> forall|i: int| 0 <= i < nm.len() - 1 ==> !m_contains(nm@, i, ws1 as int), //@
            r >= -1, //@
{
    let mut i: usize = 0;
    while i + 1 < nm.len()
        invariant i + 1 <= nm.len(), nm.len() <= 64, forall|q: int| 0 <= q < i ==> !m_contains(nm@, q, ws1 as int), //@
        decreases nm.len() - i, //@
    {
        if nm[i] <= ws1 && ws1 < nm[i + 1] { return i as i64; }
        i += 1;
    }
    -1
}

/// the leap position demanded by the rule: 1..12, or -1 for "no leap month"
pub fn leap_position(nm: &Vec<i64>, zq: &Vec<i64>, last: i64) -> (r: i64)
    requires nm.len() >= 15, nm.len() <= 64, 0 <= last < nm.len() - 1, //@
    ensures m_is_leap_pos(nm@, zq@, last as int, r as int), //@
{
    if last != 13 { return -1; }
    let mut i: usize = 1;
    while i < 13
        invariant 1 <= i <= 13, nm.len() >= 15, last == 13, forall|q: int| 1 <= q < i ==> #[trigger] m_has_zq(nm@, zq@, q), //@
        decreases 13 - i, //@
    {
        if !has_zq(nm, zq, i) {
            return i as i64;
        }
        i += 1;
    }
    -1
}
