// First-principles encoding of the classical stem/branch correspondence rules (plain Rust only: used by
// the Kani harness modules and by the leaf runner; not part of the Verus spec library).
// Every function is written from the RULE (quoted in the comment), not copied from the library's tables.
// Index conventions (fixed by the name lists, checked separately):
//   stems 0..9 甲乙丙丁戊己庚辛壬癸, branches 0..11 子丑寅卯辰巳午未申酉戌亥,
//   elements 0..4 木火土金水, directions 0..8 北 西南 东 东南 中 西北 西 东北 南 (Luoshu numbers 1..9).

pub const WOOD: i64 = 0; pub const FIRE: i64 = 1; pub const EARTH: i64 = 2; pub const METAL: i64 = 3; pub const WATER: i64 = 4;
pub const N: i64 = 0; pub const SW: i64 = 1; pub const E: i64 = 2; pub const SE: i64 = 3; pub const C: i64 = 4;
pub const NW: i64 = 5; pub const W: i64 = 6; pub const NE: i64 = 7; pub const S: i64 = 8;

pub fn md(a: i64, b: i64) -> i64 { ((a % b) + b) % b }

/// 甲乙木 丙丁火 戊己土 庚辛金 壬癸水
pub fn stem_element(s: i64) -> i64 { s / 2 }
/// odd positions are Yin (0 = Yang, 1 = Yin), for stems and branches alike
pub fn polarity(i: i64) -> i64 { i % 2 }
/// 木东 火南 土中 金西 水北
pub fn element_direction(e: i64) -> i64 { match e { 0 => E, 1 => S, 2 => C, 3 => W, _ => N } }
/// trigram elements of the nine palaces: 坎北水 坤西南土 震东木 巽东南木 中土 乾西北金 兑西金 艮东北土 离南火
pub fn direction_element(d: i64) -> i64 { match d { 0 => WATER, 1 => EARTH, 2 => WOOD, 3 => WOOD, 4 => EARTH, 5 => METAL, 6 => METAL, 7 => EARTH, _ => FIRE } }
/// 生: 木生火生土生金生水生木 ; 克: 木克土克水克火克金克木
pub fn generates(e: i64) -> i64 { md(e + 1, 5) }
pub fn overcomes(e: i64) -> i64 { md(e + 2, 5) }

/// 喜神: 甲己在艮乙庚乾，丙辛坤位喜神安，丁壬只在离宫坐，戊癸原来在巽间
pub fn joy_direction(s: i64) -> i64 { match s % 5 { 0 => NE, 1 => NW, 2 => SW, 3 => S, _ => SE } }
/// 贵神: 甲戊坤艮位，乙己是坤坎，庚辛居离艮，丙丁兑与乾，震巽属何日，壬癸贵神安 (first = 阳贵, second = 阴贵 for the
/// first stem of the pair; swapped for the second stem)
pub fn noble_direction(s: i64, yang: bool) -> i64 {
  let (a, b, d1, d2) = match s { 0 | 4 => (0, 4, SW, NE), 1 | 5 => (1, 5, SW, N), 6 | 7 => (6, 7, S, NE), 2 | 3 => (2, 3, W, NW), _ => (8, 9, E, SE) };
  let first = s == a;
  let _ = b;
  if first == yang { d1 } else { d2 }
}
/// 财神: 甲乙东北是财神，丙丁向在西南寻，戊己正北坐方位，庚辛正东去安身，壬癸原来正南坐
pub fn wealth_direction(s: i64) -> i64 { match s / 2 { 0 => NE, 1 => SW, 2 => N, 3 => E, _ => S } }
/// 福神: 甲乙东南是福神，丙丁正东是堪宜，戊北己南庚辛坤，壬在乾方癸在西
pub fn mascot_direction(s: i64) -> i64 { match s { 0 | 1 => SE, 2 | 3 => E, 4 => N, 5 => S, 6 | 7 => SW, 8 => NW, _ => W } }

/// 十神: by the generating/overcoming relation of (me -> other) and same/opposite polarity.
/// 0 比肩 1 劫财 (same element) 2 食神 3 伤官 (I generate) 4 偏财 5 正财 (I overcome)
/// 6 七杀 7 正官 (overcomes me) 8 偏印 9 正印 (generates me); even = same polarity
pub fn ten_star(me: i64, other: i64) -> i64 {
  let (e1, e2) = (stem_element(me), stem_element(other));
  let rel = if e2 == e1 { 0 } else if e2 == generates(e1) { 1 } else if e2 == overcomes(e1) { 2 } else if overcomes(e2) == e1 { 3 } else { 4 };
  rel * 2 + (if polarity(me) == polarity(other) { 0 } else { 1 })
}

/// 长生: 甲亥 丙戊寅 庚巳 壬申 ; 乙午 丁己酉 辛子 癸卯. Yang stems run forward through the branches, Yin backward.
/// stages 0 长生 1 沐浴 2 冠带 3 临官 4 帝旺 5 衰 6 病 7 死 8 墓 9 绝 10 胎 11 养
pub fn growth_stage(stem: i64, branch: i64) -> i64 {
  let birth = match stem { 0 => 11, 2 | 4 => 2, 6 => 5, 8 => 8, 1 => 6, 3 | 5 => 9, 7 => 0, _ => 3 };
  if polarity(stem) == 0 { md(branch - birth, 12) } else { md(birth - branch, 12) }
}

/// 五合: 甲己合土 乙庚合金 丙辛合水 丁壬合木 戊癸合火
pub fn stem_combine_partner(s: i64) -> i64 { md(s + 5, 10) }
pub fn stem_combine_element(s: i64) -> i64 { match s % 5 { 0 => EARTH, 1 => METAL, 2 => WATER, 3 => WOOD, _ => FIRE } }

/// 地支五行: 寅卯木 巳午火 申酉金 亥子水 辰戌丑未土
pub fn branch_element(b: i64) -> i64 { match b { 2 | 3 => WOOD, 5 | 6 => FIRE, 8 | 9 => METAL, 11 | 0 => WATER, _ => EARTH } }
/// 藏干 (本气, 中气, 余气), -1 = none:
/// 子癸 丑己癸辛 寅甲丙戊 卯乙 辰戊乙癸 巳丙庚戊 午丁己 未己丁乙 申庚壬戊 酉辛 戌戊辛丁 亥壬甲
pub fn hidden_stems(b: i64) -> (i64, i64, i64) {
  match b {
    0 => (9, -1, -1), 1 => (5, 9, 7), 2 => (0, 2, 4), 3 => (1, -1, -1), 4 => (4, 1, 9), 5 => (2, 6, 4),
    6 => (3, 5, -1), 7 => (5, 3, 1), 8 => (6, 8, 4), 9 => (7, -1, -1), 10 => (4, 7, 3), _ => (8, 0, -1),
  }
}
/// 六冲: 子午 丑未 寅申 卯酉 辰戌 巳亥
pub fn clash(b: i64) -> i64 { md(b + 6, 12) }
/// 六合: 子丑合土 寅亥合木 卯戌合火 辰酉合金 巳申合水 午未合土
pub fn six_combine(b: i64) -> (i64, i64) {
  match b { 0 => (1, EARTH), 1 => (0, EARTH), 2 => (11, WOOD), 11 => (2, WOOD), 3 => (10, FIRE), 10 => (3, FIRE),
            4 => (9, METAL), 9 => (4, METAL), 5 => (8, WATER), 8 => (5, WATER), 6 => (7, EARTH), _ => (6, EARTH) }
}
/// 六害: 子未 丑午 寅巳 卯辰 申亥 酉戌
pub fn harm(b: i64) -> i64 { match b { 0 => 7, 7 => 0, 1 => 6, 6 => 1, 2 => 5, 5 => 2, 3 => 4, 4 => 3, 8 => 11, 11 => 8, 9 => 10, _ => 9 } }
/// 煞: 申子辰(水局)煞南 巳酉丑(金局)煞东 寅午戌(火局)煞北 亥卯未(木局)煞西
pub fn ominous_direction(b: i64) -> i64 { match b { 8 | 0 | 4 => S, 5 | 9 | 1 => E, 2 | 6 | 10 => N, _ => W } }

/// 旬: the decade headed by 甲子 甲戌 甲申 甲午 甲辰 甲寅 = pillar / 10
pub fn xun(p: i64) -> i64 { p / 10 }
/// 空亡: the two branches the decade does not reach: 甲子旬戌亥 甲戌旬申酉 甲申旬午未 甲午旬辰巳 甲辰旬寅卯 甲寅旬子丑
pub fn void_branches(p: i64) -> (i64, i64) { let a = md(10 - 2 * xun(p), 12); (a, a + 1) }
/// 纳音: one per pair of pillars
pub fn nayin(p: i64) -> i64 { p / 2 }

/// 星座 boundaries (month*100+day of the FIRST day of each sign), index into 白羊 金牛 双子 巨蟹 狮子 处女 天秤 天蝎 射手 摩羯 水瓶 双鱼:
/// 3.21 4.20 5.21 6.22 7.23 8.23 9.23 10.24 11.23 12.22 1.20 2.19
pub fn zodiac_sign(m: i64, d: i64) -> i64 {
  let starts: [(i64, i64); 12] = [(321, 0), (420, 1), (521, 2), (622, 3), (723, 4), (823, 5), (923, 6), (1024, 7), (1123, 8), (1222, 9), (120, 10), (219, 11)];
  let md_ = m * 100 + d;
  // the sign whose start is the latest one <= md (the year wraps at 摩羯 -> 水瓶)
  let mut best: i64 = 9; // before Jan 20: 摩羯
  let mut best_start: i64 = -1;
  let mut k = 0;
  while k < 12 {
    let (s, idx) = starts[k];
    if s <= md_ && s > best_start { best_start = s; best = idx; }
    k += 1;
  }
  best
}

/// 二十八宿: 七政 日月火水木金土, 四象 东北西南 (七宿 each), 九野 钧天(中)角亢氐 苍天(东)房心尾 变天(东北)箕斗牛 玄天(北)女虚危室
/// 幽天(西北)壁奎娄 颢天(西)胃昴毕 朱天(西南)觜参井 炎天(南)鬼柳星 阳天(东南)张翼轸
/// (LAND index: 玄0 朱1 苍2 阳3 钧4 幽5 颢6 变7 炎8)
pub fn mansion_land(i: i64) -> i64 {
  if i < 3 { 4 } else if i < 6 { 2 } else if i < 9 { 7 } else if i < 13 { 0 } else if i < 16 { 5 } else if i < 19 { 6 } else if i < 22 { 1 } else if i < 25 { 8 } else { 3 }
}
/// 七政 of a mansion: 角木 亢金 氐土 房日 心月 尾火 箕水, repeating (SEVEN_STAR index: 日0 月1 火2 水3 木4 金5 土6)
pub fn mansion_luminary(i: i64) -> i64 { md(i % 7 + 4, 7) }
pub fn mansion_zone(i: i64) -> i64 { i / 7 }
/// 吉凶 of the 28 mansions (0 吉 1 凶): 角吉 亢凶 氐凶 房吉 心凶 尾吉 箕吉 斗吉 牛凶 女凶 虚凶 危凶 室吉 壁吉 奎凶 娄吉 胃吉 昴凶 毕吉 觜凶 参吉 井吉 鬼凶 柳凶 星凶 张吉 翼凶 轸吉
pub fn mansion_luck(i: i64) -> i64 {
  let bad = [1, 2, 4, 8, 9, 10, 11, 14, 17, 19, 22, 23, 24, 26];
  let mut k = 0;
  while k < bad.len() { if bad[k] == i { return 1; } k += 1; }
  0
}
/// 黄道黑道 of the twelve spirits: 青龙 明堂 金匮 天德 玉堂 司命 are 黄道(0); 天刑 朱雀 白虎 天牢 玄武 勾陈 黑道(1)
pub fn twelve_star_ecliptic(i: i64) -> i64 { match i { 0 | 1 | 4 | 5 | 7 | 10 => 0, _ => 1 } }

/// 胎神 direction/side of a day pillar: run-length list from 甲子:
/// 外东南2 外正南5 外西南6 外正西5 外西北6 外正北5 房内北5 房内中2 房内南3 房内西1 房内东4 房内中1 外东北6 外正东5 外东南4
/// returns (side: 0 内 1 外, direction index)
pub fn fetus_day_place(p: i64) -> (i64, i64) {
  let runs: [(i64, i64, i64); 15] = [(1, SE, 2), (1, S, 5), (1, SW, 6), (1, W, 5), (1, NW, 6), (1, N, 5), (0, N, 5), (0, C, 2), (0, S, 3), (0, W, 1), (0, E, 4), (0, C, 1), (1, NE, 6), (1, E, 5), (1, SE, 4)];
  let mut acc = 0;
  let mut k = 0;
  while k < 15 {
    let (side, dir, len) = runs[k];
    if p < acc + len { return (side, dir); }
    acc += len;
    k += 1;
  }
  (1, SE)
}

/// 五虎遁 (month stem of the 寅 month from the year stem): 甲己丙 乙庚戊 丙辛庚 丁壬壬 戊癸甲
pub fn five_tigers(year_stem: i64) -> i64 { match year_stem % 5 { 0 => 2, 1 => 4, 2 => 6, 3 => 8, _ => 0 } }
/// 五鼠遁 (hour stem of the 子 hour from the day stem): 甲己甲 乙庚丙 丙辛戊 丁壬庚 戊癸壬
pub fn five_rats(day_stem: i64) -> i64 { match day_stem % 5 { 0 => 0, 1 => 2, 2 => 4, 3 => 6, _ => 8 } }
/// pillar index from (stem, branch) of equal parity (CRT): the unique p in 0..59 with p%10==s, p%12==b
pub fn pillar_index(s: i64, b: i64) -> i64 { md(6 * s - 5 * b, 60) }

/// 人元司令分野: per Jie month (by month branch) up to three commanding stems with their day allotments, in order
/// (residual, middle, main); stem -1 = no middle slot; the main stem takes the rest of the month (99).
/// 寅 戊7 丙7 甲  卯 甲10 乙  辰 乙9 癸3 戊  巳 戊5 庚9 丙  午 丙10 己9 丁  未 丁9 乙3 己
/// 申 戊10 壬3 庚  酉 庚10 辛  戌 辛9 丁3 戊  亥 戊7 甲5 壬  子 壬10 癸  丑 癸9 辛3 己
pub fn commanding_allot(month_branch: i64) -> [(i64, i64); 3] {
  match month_branch {
    2 => [(4, 7), (2, 7), (0, 99)], 3 => [(0, 10), (-1, 0), (1, 99)], 4 => [(1, 9), (9, 3), (4, 99)], 5 => [(4, 5), (6, 9), (2, 99)],
    6 => [(2, 10), (5, 9), (3, 99)], 7 => [(3, 9), (1, 3), (5, 99)], 8 => [(4, 10), (8, 3), (6, 99)], 9 => [(6, 10), (-1, 0), (7, 99)],
    10 => [(7, 9), (3, 3), (4, 99)], 11 => [(4, 7), (0, 5), (8, 99)], 0 => [(8, 10), (-1, 0), (9, 99)], _ => [(9, 9), (7, 3), (5, 99)],
  }
}
/// (stem, slot 0 residual / 1 middle / 2 main, day index inside the slot) of day `off` (0-based) of the Jie month
pub fn commanding_stem(month_branch: i64, off: i64) -> (i64, i64, i64) {
  let a = commanding_allot(month_branch);
  let mut acc = 0i64;
  let mut slot = 0usize;
  while slot < 3 {
    let (stem, days) = a[slot];
    if stem >= 0 {
      if off < acc + days { return (stem, slot as i64, off - acc); }
      acc += days;
    }
    slot += 1;
  }
  (-1, -1, -1)
}
